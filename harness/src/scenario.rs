//! Structured crash scenarios: program shapes that the free generator reaches only rarely because
//! they need a long, specific preparation (journal ids with two digits; flushed data whose journal
//! is already deleted followed by unflushed data in the same keyspace). The shape is fixed, every
//! parameter (keys, sizes, which operation follows, flavour, compression, counts) comes from the
//! seeded generator stream, and the programs run through exactly the same oracle as generated ones.

use crate::case::*;
use std::ops::Range;

pub struct Scenario {
    pub case: Case,
    /// operations whose tracked calls are all used as kill points
    pub focus: Range<usize>,
    pub name: &'static str,
}

struct Xs(u64);
impl Xs {
    fn next(&mut self) -> u64 {
        self.0 ^= self.0 << 13;
        self.0 ^= self.0 >> 7;
        self.0 ^= self.0 << 17;
        self.0
    }
    fn below(&mut self, n: u64) -> u64 {
        (self.next() >> 11) % n
    }
}

fn flavor(x: &mut Xs) -> Flavor {
    match x.below(3) {
        0 => Flavor::Plain,
        1 => Flavor::SingleWriter,
        _ => Flavor::Optimistic,
    }
}

fn kscfg(memtable: u64, blob: Option<u32>) -> KsCfg {
    KsCfg {
        blob,
        memtable,
        strategy: Strat::LeveledDefault,
        manual_persist: false,
    }
}

const LAST: u16 = 65535;

/// Rotation storm: keyspace 0 flushes after every write (values above the scaled rotation
/// threshold), keyspace 1 lags and pins every sealed journal while its few keys are overwritten and
/// removed all the time, so a recovery that replays journals in the wrong order, skips one, or
/// mistakes which one is active returns stale data. Journal ids run well into two digits; reopen
/// happens with many sealed journals present.
pub fn storm(rng: u64) -> Scenario {
    let mut x = Xs(rng | 1);
    let iters = 14 + x.below(14) as u32;
    let cfg = Cfg {
        flavor: flavor(&mut x),
        journal_lz4: x.below(2) == 0,
        db_manual_persist: false,
        pos_scale: 64_000,
        ks: vec![kscfg(256, None), kscfg(64 * 1024 * 1024, if x.below(3) == 0 { Some(64) } else { None })],
        filter_mask: 0,
    };
    let mut ops = vec![];
    let reopen_at = 10 + x.below(u64::from(iters) - 10) as u32;
    let mut focus_start = 0;
    for i in 0..iters {
        let key = B::L(format!("s{}", x.below(5)).into_bytes());
        ops.push(Op::Insert {
            ks: 0,
            k: key,
            v: B::R { len: 1100 + x.below(400) as u32, seed: x.next() as u8, rnd: true },
        });
        let lk = B::L(format!("t{}", x.below(3)).into_bytes());
        match x.below(6) {
            0 => ops.push(Op::Remove { ks: LAST, k: lk }),
            1 => ops.push(Op::Batch {
                items: vec![(LAST, lk, Some(B::L(vec![i as u8; 5]))), (0, B::L(b"sb".to_vec()), Some(B::L(vec![i as u8; 3])))],
                dur: 0,
            }),
            _ => ops.push(Op::Insert { ks: LAST, k: lk, v: B::L(vec![i as u8; 9]) }),
        }
        ops.push(Op::Step { n: 3 });
        if i == 9 {
            focus_start = ops.len();
        }
        if i == reopen_at {
            ops.push(Op::Reopen { alt: 0 });
        }
    }
    let focus_end = ops.len();
    ops.push(Op::Reopen { alt: 0 });
    ops.push(Op::Insert { ks: LAST, k: B::L(b"t0".to_vec()), v: B::L(b"end".to_vec()) });
    Scenario {
        case: Case { cfg, ops },
        focus: focus_start..focus_end,
        name: "storm",
    }
}

/// Keyspace 0 holds flushed data whose journal has been rotated away and deleted, then newer
/// unflushed data (overwrites, removes, new keys) that lives only in the current journal; then one
/// state-changing operation runs (clear, keyspace deletion, cross-keyspace batch, rotation + flush,
/// major compaction, ...) and every tracked call inside it is a kill point.
pub fn after_eviction(rng: u64) -> Scenario {
    let mut x = Xs(rng | 1);
    let blob = if x.below(4) == 0 { Some(64) } else { None };
    let cfg = Cfg {
        flavor: flavor(&mut x),
        journal_lz4: x.below(2) == 0,
        db_manual_persist: false,
        pos_scale: 64_000,
        ks: vec![kscfg(64 * 1024 * 1024, blob), kscfg(64 * 1024 * 1024, None)],
        filter_mask: 0,
    };
    let key = |x: &mut Xs| B::L(format!("k{}", x.below(6)).into_bytes());
    let mut ops = vec![];
    let n_old = 2 + x.below(4);
    for _ in 0..n_old {
        let k = key(&mut x);
        ops.push(Op::Insert { ks: 0, k, v: B::R { len: 300 + x.below(900) as u32, seed: x.next() as u8, rnd: true } });
    }
    ops.push(Op::Insert { ks: LAST, k: B::L(b"o".to_vec()), v: B::R { len: 700, seed: 1, rnd: true } });
    // rotate + flush everything: the journal that logged the data above is deleted
    ops.push(Op::SettleJournals);
    let n_new = 1 + x.below(4);
    for _ in 0..n_new {
        let k = key(&mut x);
        match x.below(4) {
            0 => ops.push(Op::Remove { ks: 0, k }),
            _ => ops.push(Op::Insert { ks: 0, k, v: B::L(vec![b'n'; 1 + x.below(40) as usize]) }),
        }
    }
    if x.below(2) == 0 {
        ops.push(Op::Insert { ks: LAST, k: B::L(b"p".to_vec()), v: B::L(b"new".to_vec()) });
    }
    let focus_start = ops.len();
    match x.below(8) {
        0 | 1 | 2 => ops.push(Op::Clear { ks: 0 }),
        3 => ops.push(Op::DeleteKs { ks: 0, keep_handle: x.below(2) == 0 }),
        4 => ops.push(Op::Batch {
            items: vec![(0, key(&mut x), None), (LAST, B::L(b"o".to_vec()), Some(B::L(b"b".to_vec()))), (0, key(&mut x), Some(B::L(b"bb".to_vec())))],
            // never 1 = durability(None): that is a manual-persist choice of the caller
            dur: [0u8, 2, 3, 4][x.below(4) as usize],
        }),
        5 => {
            ops.push(Op::Rotate { ks: 0 });
            ops.push(Op::Step { n: 4 });
        }
        6 => ops.push(Op::MajorCompact { ks: 0 }),
        _ => {
            ops.push(Op::Clear { ks: 0 });
            ops.push(Op::Insert { ks: 0, k: key(&mut x), v: B::L(b"after-clear".to_vec()) });
            ops.push(Op::Rotate { ks: 0 });
            ops.push(Op::Step { n: 4 });
        }
    }
    let focus_end = ops.len();
    for _ in 0..1 + x.below(3) {
        let k = key(&mut x);
        ops.push(Op::Insert { ks: 0, k, v: B::L(vec![b'z'; 1 + x.below(20) as usize]) });
    }
    ops.push(Op::Reopen { alt: 0 });
    ops.push(Op::Insert { ks: LAST, k: B::L(b"q".to_vec()), v: B::L(b"end".to_vec()) });
    Scenario {
        case: Case { cfg, ops },
        focus: focus_start..focus_end,
        name: "after_eviction",
    }
}

/// index value that `idx` maps onto position `pos` of `len` live keyspaces
fn sel(pos: usize, len: usize) -> u16 {
    ((pos * 65536).div_ceil(len)).min(65535) as u16
}

/// Four keyspaces log into the same journal; one of them flushes (journal rotation: the journal is
/// sealed with a watermark for every keyspace), then one keyspace is deleted, others flush, one
/// lags with unflushed data. Which name plays which role is drawn from the seed (the watermark
/// order is the hash-map order of the names). The sealed journal may only go once the lagging
/// keyspace was flushed; the driver kills around every journal unlink.
pub fn deleted_watermark(rng: u64) -> Scenario {
    let mut x = Xs(rng | 1);
    let cfg = Cfg {
        flavor: flavor(&mut x),
        journal_lz4: x.below(2) == 0,
        db_manual_persist: false,
        pos_scale: 64_000,
        ks: (0..4).map(|_| kscfg(64 * 1024 * 1024, None)).collect(),
        filter_mask: 0,
    };
    // roles: a permutation of the four positions
    let mut perm = [0usize, 1, 2, 3];
    for i in (1..4).rev() {
        let j = x.below(i as u64 + 1) as usize;
        perm.swap(i, j);
    }
    let (f1, d, l, f2) = (perm[0], perm[1], perm[2], perm[3]);
    let mut live: Vec<usize> = vec![0, 1, 2, 3];
    let at = |live: &Vec<usize>, who: usize| sel(live.iter().position(|p| *p == who).unwrap(), live.len());
    let mut ops = vec![];
    for who in [l, d, f2, f1] {
        ops.push(Op::Insert { ks: at(&live, who), k: B::L(format!("w{who}").into_bytes()), v: B::L(vec![b'0' + who as u8; 1 + x.below(30) as usize]) });
    }
    ops.push(Op::Insert { ks: at(&live, f1), k: B::L(b"big".to_vec()), v: B::R { len: 1200 + x.below(300) as u32, seed: x.next() as u8, rnd: true } });
    ops.push(Op::Rotate { ks: at(&live, f1) });
    ops.push(Op::Step { n: 4 });
    let focus_start = ops.len();
    let delete_first = x.below(3) != 0;
    if delete_first {
        ops.push(Op::DeleteKs { ks: at(&live, d), keep_handle: x.below(2) == 0 });
        live.retain(|p| *p != d);
    }
    ops.push(Op::Insert { ks: at(&live, f2), k: B::L(b"x".to_vec()), v: B::R { len: 50 + x.below(1300) as u32, seed: 3, rnd: true } });
    ops.push(Op::Rotate { ks: at(&live, f2) });
    ops.push(Op::Step { n: 4 });
    if !delete_first {
        ops.push(Op::DeleteKs { ks: at(&live, d), keep_handle: x.below(2) == 0 });
        live.retain(|p| *p != d);
    }
    ops.push(Op::Insert { ks: at(&live, f1), k: B::L(b"y".to_vec()), v: B::L(b"second".to_vec()) });
    ops.push(Op::Rotate { ks: at(&live, f1) });
    ops.push(Op::Step { n: 4 });
    ops.push(Op::Insert { ks: at(&live, l), k: B::L(b"late".to_vec()), v: B::L(b"l".to_vec()) });
    let focus_end = ops.len();
    if x.below(2) == 0 {
        ops.push(Op::Reopen { alt: 0 });
    }
    Scenario {
        case: Case { cfg, ops },
        focus: focus_start..focus_end,
        name: "deleted_watermark",
    }
}
