//! Operation semantics of the E1 interpreter (real call + model update + comparison).

use crate::case::*;
use crate::interp::*;
use crate::model::*;
use crate::real::*;
use fjall::{AbstractTree, Readable};
use std::collections::{BTreeMap, VecDeque};
use std::rc::Rc;

impl<'a> World<'a> {
    fn model_put(&mut self, name: &str, k: &[u8], v: Option<&[u8]>) {
        if let Some(m) = self.model.get_mut(name) {
            match v {
                Some(v) => {
                    m.insert(k.to_vec(), v.to_vec());
                }
                None => {
                    m.remove(k);
                }
            }
        }
        self.note_write(name, k);
        if !self.in_ingest {
            self.journaled.entry(name.to_string()).or_default().insert(k.to_vec());
        }
    }

    fn wc_insert(&mut self, name: &str, k: &[u8]) {
        let e = self.wcount.entry((name.to_string(), k.to_vec())).or_insert(0);
        *e = if *e == 0 { 1 } else { 2 };
    }
    fn wc_dirty(&mut self, name: &str, k: &[u8]) {
        self.wcount.insert((name.to_string(), k.to_vec()), 2);
    }

    pub fn is_fifo(&self, name: &str) -> bool {
        self.kscfg
            .get(name)
            .map_or(false, |c| matches!(c.strategy, Strat::FifoNoEvict))
    }

    /// FIFO compaction is documented for insert-only workloads with strictly monotonic keys:
    /// inside a FIFO keyspace every inserted key gets a monotonically increasing prefix.
    pub fn fifo_key(&mut self, k: &[u8]) -> Vec<u8> {
        self.fifo_ctr += 1;
        let mut v = format!("{:08}", self.fifo_ctr).into_bytes();
        v.extend_from_slice(&k[..k.len().min(60_000)]);
        v
    }

    fn sw_tx_open(&self) -> bool {
        self.txs
            .iter()
            .any(|t| matches!(t.real, Some(TxReal::Single(_))))
    }

    /// closes bookkeeping for a holder of `instant`
    fn holder_closed(&mut self, instant: u64) {
        for v in &mut self.views {
            if v.instant == instant {
                v.sibling_closed = true;
            }
        }
        for v in &mut self.iters {
            if v.instant == instant {
                v.sibling_closed = true;
            }
        }
        for v in &mut self.txs {
            if v.instant == instant {
                v.sibling_closed = true;
            }
        }
    }

    fn nt_view_read(&mut self, writes: u64, maint: u64, sib: bool) {
        if writes > 0 {
            self.st.inc("view_reads_after_write");
        }
        if writes > 0 && maint > 0 {
            self.st.inc("view_reads_after_write_and_maint");
            if sib {
                self.st.inc("nt_view_read_after_write_maint_sibling_closed");
            }
        }
    }

    // single write through the flavour's natural API
    fn do_write(&mut self, name: &str, k: &[u8], v: Option<&[u8]>, weak: bool) -> Res {
        let h = self.ks[name].clone();
        self.pre_write(name)?;
        let t0 = self.tick();
        match (&h.sw, &h.opt) {
            (Some(sw), _) => match v {
                Some(v) => sw.insert(k, v).map_err(es("sw insert"))?,
                None if weak => sw.remove_weak(k).map_err(es("sw remove_weak"))?,
                None => sw.remove(k).map_err(es("sw remove"))?,
            },
            (_, Some(o)) => match v {
                Some(v) => o.insert(k, v).map_err(es("opt insert"))?,
                None if weak => o.remove_weak(k).map_err(es("opt remove_weak"))?,
                None => o.remove(k).map_err(es("opt remove"))?,
            },
            _ => match v {
                Some(v) => h.ks.insert(k, v).map_err(es("insert"))?,
                None if weak => h.ks.remove_weak(k).map_err(es("remove_weak"))?,
                None => h.ks.remove(k).map_err(es("remove"))?,
            },
        }
        let t1 = self.tick();
        if self.o.check_ser && h.opt.is_some() {
            let id = self.next_uid;
            self.next_uid += 1;
            self.ser_recs.push(TxRec {
                id,
                begin: t0,
                end: t1,
                outcome: Outcome::Committed,
                events: vec![TxEvent::Write {
                    ks: name.to_string(),
                    w: match v {
                        Some(v) => TxW::Insert(B::L(k.to_vec()), B::L(v.to_vec())),
                        None => TxW::Remove(B::L(k.to_vec())),
                    },
                    ret: None,
                }],
            });
        }
        self.model_put(name, k, v);
        Ok(())
    }

    pub fn exec(&mut self, op: &Op) -> Res {
        match op {
            Op::Insert { ks, k, v } => {
                let Some(n) = self.ks_name(*ks) else { return Ok(()) };
                if self.sw_tx_open() {
                    self.st.inc("skipped_sw_tx_open");
                    return Ok(());
                }
                let (mut k, v) = (k.mat(), v.mat());
                if self.is_fifo(&n) {
                    k = self.fifo_key(&k);
                }
                self.do_write(&n, &k, Some(&v), false)?;
                self.wc_insert(&n, &k);
                self.st.inc("inserts");
                if v.len() >= 4096 {
                    self.st.inc("big_values");
                }
            }
            Op::Remove { ks, k } => {
                let Some(n) = self.ks_name(*ks) else { return Ok(()) };
                if self.sw_tx_open() {
                    self.st.inc("skipped_sw_tx_open");
                    return Ok(());
                }
                if self.is_fifo(&n) {
                    self.st.inc("skipped_fifo_precondition");
                    return Ok(());
                }
                let k = k.mat();
                if self.model[&n].contains_key(&k) {
                    self.st.inc("removes_of_present");
                }
                self.do_write(&n, &k, None, false)?;
                self.wc_dirty(&n, &k);
                self.st.inc("removes");
            }
            Op::RemoveWeak { ks, k } => {
                let Some(n) = self.ks_name(*ks) else { return Ok(()) };
                if self.sw_tx_open() {
                    self.st.inc("skipped_sw_tx_open");
                    return Ok(());
                }
                if self.is_fifo(&n) {
                    self.st.inc("skipped_fifo_precondition");
                    return Ok(());
                }
                let k = k.mat();
                // documented precondition: key written exactly once since creation / last remove_weak
                let ok = self.wcount.get(&(n.clone(), k.clone())).copied() == Some(1);
                self.do_write(&n, &k, None, ok)?;
                if ok {
                    self.wcount.insert((n.clone(), k.clone()), 0);
                    self.st.inc("weak_removes");
                } else {
                    self.wc_dirty(&n, &k);
                    self.st.inc("removes");
                }
            }
            Op::Batch { items, dur } => self.op_batch(items, *dur)?,
            Op::Clear { ks } => {
                let Some(n) = self.ks_name(*ks) else { return Ok(()) };
                let h = self.ks[&n].clone();
                h.ks.clear().map_err(es("clear"))?;
                let keys: Vec<Vec<u8>> = self.model[&n].keys().cloned().collect();
                for k in keys {
                    self.wc_dirty(&n, &k);
                }
                self.model.get_mut(&n).unwrap().clear();
                self.mem_keys.remove(&n);
                self.sealed_keys.remove(&n);
                self.disk_keys.remove(&n);
                self.unflushed_write_since_open = true;
                for v in &mut self.views {
                    v.writes_since += 1;
                }
                for v in &mut self.iters {
                    v.writes_since += 1;
                }
                for v in &mut self.txs {
                    v.writes_since += 1;
                }
                self.st.inc("clears");
                self.note_maint();
            }
            Op::Ingest { ks, items } => self.op_ingest(*ks, items)?,
            Op::Persist { mode } => {
                self.dbi().persist(persist_mode(*mode)).map_err(es("persist"))?;
                self.st.inc("persists");
            }
            Op::Rotate { ks } => {
                let Some(n) = self.ks_name(*ks) else { return Ok(()) };
                self.pre_write(&n)?;
                let h = self.ks[&n].clone();
                let r = h.ks.rotate_memtable().map_err(es("rotate_memtable"))?;
                if r {
                    self.st.inc("explicit_rotations");
                }
            }
            Op::Step { n } => {
                for _ in 0..*n {
                    if !self.step_worker()? {
                        break;
                    }
                    self.sample_counts();
                }
                if self.o.audit_after_maint {
                    self.sample_counts();
                    self.audit_all()?;
                }
            }
            Op::Drain => {
                self.drain()?;
                if self.o.audit_after_maint {
                    self.sample_counts();
                    self.audit_all()?;
                }
            }
            Op::MajorCompact { ks } => {
                let Some(n) = self.ks_name(*ks) else { return Ok(()) };
                let h = self.ks[&n].clone();
                let composite = self.o.c18 && (*ks & 1) == 0;
                if composite {
                    // rotate + flush + major compaction: the sequence after which a filter must be in effect
                    self.pre_write(&n)?;
                    h.ks.rotate_memtable().map_err(es("rotate_memtable"))?;
                    self.drain()?;
                }
                h.ks.major_compact().map_err(es("major_compact"))?;
                self.st.inc("major_compactions");
                self.note_maint();
                if self.o.c18 && self.filtered(&n) && h.ks.tree.sealed_memtable_count() == 0 && h.ks.tree.active_memtable().size() == 0 {
                    self.st.inc("major_compactions_filtered_everything_in_tables");
                    self.sample_counts();
                    self.audit_ks(&n)?;
                    // "in effect" direction: every remove/replace key must now be in filtered form
                    for (k, v) in self.model[&n].clone() {
                        match filt::class_of(&k) {
                            filt::Class::Keep => {}
                            filt::Class::Remove => {
                                return Err(format!(
                                    "filter assigned to keyspace {n} is not in effect: key {} (verdict remove) still present after flush + major compaction",
                                    short(&k)
                                ));
                            }
                            filt::Class::Replace => {
                                ck!(
                                    v == filt::replacement(&k),
                                    "filter assigned to keyspace {n} is not in effect: key {} (verdict replace) still has its original value after flush + major compaction",
                                    short(&k)
                                );
                            }
                        }
                    }
                }
                if self.o.audit_after_maint {
                    self.sample_counts();
                    self.audit_all()?;
                }
            }
            Op::Read { ks, r } => {
                let Some(n) = self.ks_name(*ks) else { return Ok(()) };
                if self.o.c18 && self.filtered(&n) {
                    return self.audit_ks(&n);
                }
                let h = self.ks[&n].clone();
                let got = read_ks(&h.ks, r)?;
                let want = eval_read(&self.model[&n], r);
                self.note_read(&n, r);
                ck!(
                    got == want,
                    "read {r:?} on keyspace {n}: real {} model {}",
                    got.brief(),
                    want.brief()
                );
            }
            Op::Audit => {
                self.sample_counts();
                self.audit_all()?;
            }
            Op::ViewOpen { kind } => {
                if self.views.len() >= 6 {
                    return Ok(());
                }
                let instant = self.dbi().visible_seqno();
                let snap = match (self.db.as_ref().unwrap(), kind) {
                    (DbH::Single(d), ViewKind::ReadTx) => d.read_tx(),
                    (DbH::Opt(d), ViewKind::ReadTx) => d.read_tx(),
                    (d, _) => d.inner().snapshot(),
                };
                ck!(
                    snap.seqno() == instant,
                    "snapshot instant {} != visible seqno {instant}",
                    snap.seqno()
                );
                self.views.push(ViewS {
                    snap,
                    state: Rc::new(self.model.clone()),
                    inc: self.inc.clone(),
                    instant,
                    sibling_closed: false,
                    writes_since: 0,
                    maint_since: 0,
                });
                self.st.inc("views_opened");
                let same = self.views.iter().filter(|v| v.instant == instant).count()
                    + self.txs.iter().filter(|v| v.instant == instant).count();
                if same > 1 {
                    self.st.inc("views_same_instant");
                }
            }
            Op::ViewClone { i } => {
                let Some(j) = idx(*i, self.views.len()) else { return Ok(()) };
                if self.views.len() >= 6 {
                    return Ok(());
                }
                let v = &self.views[j];
                let nv = ViewS {
                    snap: v.snap.clone(),
                    state: v.state.clone(),
                    inc: v.inc.clone(),
                    instant: v.instant,
                    sibling_closed: v.sibling_closed,
                    writes_since: v.writes_since,
                    maint_since: v.maint_since,
                };
                self.views.push(nv);
                self.st.inc("views_cloned");
            }
            Op::ViewClose { i } => {
                let Some(j) = idx(*i, self.views.len()) else { return Ok(()) };
                let v = self.views.remove(j);
                let inst = v.instant;
                drop(v);
                self.holder_closed(inst);
                self.st.inc("views_closed");
            }
            Op::ViewRead { i, ks, r } => {
                let Some(j) = idx(*i, self.views.len()) else { return Ok(()) };
                let Some(n) = self.ks_name(*ks) else { return Ok(()) };
                let v = &self.views[j];
                if v.inc.get(&n) != self.inc.get(&n) {
                    return Ok(());
                }
                let h = self.ks[&n].clone();
                let got = read_rd(&v.snap, &h.ks, r)
                    .map_err(|e| format!("using a live snapshot failed: {e}"))?;
                let empty = Map::new();
                let want = eval_read(v.state.get(&n).unwrap_or(&empty), r);
                let (w, m, s) = (v.writes_since, v.maint_since, v.sibling_closed);
                ck!(
                    got == want,
                    "view#{j} (instant {}) read {r:?} on {n}: real {} but state at creation gives {}",
                    v.instant,
                    got.brief(),
                    want.brief()
                );
                self.st.inc("view_reads");
                self.nt_view_read(w, m, s);
            }
            Op::IterOpen { src, ks, sel } => self.op_iter_open(*src, *ks, sel)?,
            Op::IterStep { j, back, n } => {
                let Some(jx) = idx(*j, self.iters.len()) else { return Ok(()) };
                // an iterator created from a write transaction shows the transaction's view at the
                // moment it was created, also after the transaction wrote again
                if let Some((uid, wver)) = self.iters[jx].tx {
                    let live = self.txs.iter().find(|t| t.uid == uid).map(|t| t.wver);
                    if live.is_some() && live != Some(wver) {
                        self.st.inc("tx_iter_steps_after_later_tx_write");
                    }
                }
                for _ in 0..(*n).max(1) {
                    let it = &mut self.iters[jx];
                    let g = if *back { it.it.next_back() } else { it.it.next() };
                    let want = if *back {
                        it.expect.pop_back()
                    } else {
                        it.expect.pop_front()
                    };
                    let got = match g {
                        None => None,
                        Some(g) => {
                            let (k, v) = g
                                .into_inner()
                                .map_err(|e| format!("using a live iterator failed: {e:?}"))?;
                            Some((k.to_vec(), v.to_vec()))
                        }
                    };
                    let (w, m, s, inst) = (it.writes_since, it.maint_since, it.sibling_closed, it.instant);
                    ck!(
                        got == want,
                        "iterator#{jx} on {} (instant {inst}, {} writes since creation): yielded {} but state at creation gives {}",
                        it.ks,
                        w,
                        got.as_ref().map_or("None".into(), |(k, v)| format!("{}={}", short(k), short(v))),
                        want.as_ref().map_or("None".into(), |(k, v)| format!("{}={}", short(k), short(v)))
                    );
                    self.st.inc("iter_steps");
                    self.nt_view_read(w, m, s);
                    if got.is_none() {
                        break;
                    }
                }
            }
            Op::IterDrop { j } => {
                let Some(jx) = idx(*j, self.iters.len()) else { return Ok(()) };
                let it = self.iters.remove(jx);
                let inst = it.instant;
                drop(it);
                self.holder_closed(inst);
            }
            Op::TxBegin => self.op_tx_begin()?,
            Op::TxRead { t, ks, r } => self.op_tx_read(*t, *ks, r)?,
            Op::TxWrite { t, ks, w } => self.op_tx_write(*t, *ks, w)?,
            Op::TxCommit { t } => self.op_tx_end(*t, 0)?,
            Op::TxRollback { t } => self.op_tx_end(*t, 1)?,
            Op::TxDrop { t } => self.op_tx_end(*t, 2)?,
            Op::Auto { ks, w } => self.op_auto(*ks, w)?,
            Op::CreateKs { name, cfg } => {
                let name = NAMES[usize::from(*name) % NAMES.len()];
                if self.model.len() >= 4 && !self.model.contains_key(name) {
                    return Ok(());
                }
                self.create_ks(name, cfg)?;
            }
            Op::DeleteKs { ks, keep_handle } => self.op_delete_ks(*ks, *keep_handle)?,
            Op::StaleWrite { i, k, v, batch: true } => {
                let Some(j) = idx(*i, self.stale.len()) else { return Ok(()) };
                if self.sw_tx_open() {
                    return Ok(());
                }
                let h = self.stale[j].h.clone();
                let (k, v) = (k.mat(), v.as_ref().map(B::mat));
                // accepted or refused: the statement only says that it never shows up in a live
                // keyspace (now or after a reopen) — the model stays as it is
                let ok = match self.db.as_ref().unwrap() {
                    DbH::Plain(d) => {
                        let mut b = d.batch();
                        match &v {
                            Some(v) => b.insert(&h.ks, k.clone(), v.clone()),
                            None => b.remove(&h.ks, k.clone()),
                        }
                        b.commit().is_ok()
                    }
                    DbH::Single(d) => {
                        let mut tx = d.write_tx();
                        let hk = h.sw.as_ref().unwrap();
                        match &v {
                            Some(v) => tx.insert(hk, k.clone(), v.clone()),
                            None => tx.remove(hk, k.clone()),
                        }
                        tx.commit().is_ok()
                    }
                    DbH::Opt(d) => {
                        let mut tx = d.write_tx().map_err(es("write_tx"))?;
                        match &v {
                            Some(v) => tx.insert(&h.ks, k.clone(), v.clone()),
                            None => tx.remove(&h.ks, k.clone()),
                        }
                        matches!(tx.commit(), Ok(Ok(())))
                    }
                };
                self.st.inc(if ok { "stale_batches_accepted" } else { "stale_batches_refused" });
                if self.model.contains_key(&self.stale[j].name) {
                    self.st.inc("stale_batch_while_name_recreated");
                }
            }
            Op::StaleWrite { i, k, v, batch: false } => {
                let Some(j) = idx(*i, self.stale.len()) else { return Ok(()) };
                let h = self.stale[j].h.clone();
                let k = k.mat();
                let r = match v {
                    Some(v) => h.ks.insert(k, v.mat()),
                    None => h.ks.remove(k),
                };
                match r {
                    Err(e) if is_deleted_err(&e) => {}
                    other => {
                        return Err(format!(
                            "write through handle of deleted keyspace {} returned {other:?}, expected KeyspaceDeleted",
                            self.stale[j].name
                        ))
                    }
                }
                self.st.inc("stale_writes_refused");
            }
            Op::StaleDrop { i } => {
                let Some(j) = idx(*i, self.stale.len()) else { return Ok(()) };
                let s = self.stale.remove(j);
                self.deleted_dirs.push(s.path.clone());
                drop(s);
            }
            Op::Reopen { alt } => self.op_reopen(*alt)?,
            Op::SettleJournals => {
                if self.sw_tx_open() {
                    return Ok(());
                }
                for round in 0..3 {
                    for n in self.names() {
                        self.pre_write(&n)?;
                        let h = self.ks[&n].clone();
                        h.ks.rotate_memtable().map_err(es("rotate_memtable"))?;
                        self.drain()?;
                    }
                    let _ = round;
                }
                let jc = self.dbi().journal_count();
                let on_disk = std::fs::read_dir(&self.dir)
                    .map(|rd| rd.flatten().filter(|e| e.file_name().to_string_lossy().ends_with(".jnl")).count())
                    .unwrap_or(0);
                self.st.inc("settle_journals");
                let dbg: Vec<String> = self
                    .ks
                    .iter()
                    .map(|(n, h)| format!("{n}: id={} sealed={} active_empty={} persisted={:?} deleted={}", h.ks.id(), h.ks.tree.sealed_memtable_count(), h.ks.tree.active_memtable().is_empty(), h.ks.tree.get_highest_persisted_seqno(), h.ks.verif_is_deleted()))
                    .chain(self.stale.iter().map(|s| format!("STALE {}: id={} sealed={} active_empty={} persisted={:?} deleted={}", s.name, s.h.ks.id(), s.h.ks.tree.sealed_memtable_count(), s.h.ks.tree.active_memtable().is_empty(), s.h.ks.tree.get_highest_persisted_seqno(), s.h.ks.verif_is_deleted())))
                    .collect();
                let _ = &dbg;
                ck!(
                    jc == 1 && on_disk == 1,
                    "after every keyspace was rotated and flushed, journal_count() = {jc} and {on_disk} journal files are on disk (expected 1) [{}]", dbg.join("; ")
                );
            }
        }
        Ok(())
    }

    fn op_batch(&mut self, items: &[(u16, B, Option<B>)], dur: u8) -> Res {
        if items.is_empty() || self.model.is_empty() {
            return Ok(());
        }
        if self.sw_tx_open() {
            self.st.inc("skipped_sw_tx_open");
            return Ok(());
        }
        let mut resolved: Vec<(String, Vec<u8>, Option<Vec<u8>>)> = vec![];
        for (ks, k, v) in items {
            let n = self.ks_name(*ks).unwrap();
            if self.is_fifo(&n) {
                if let Some(v) = v {
                    let fk = self.fifo_key(&k.mat());
                    resolved.push((n, fk, Some(v.mat())));
                }
                continue;
            }
            resolved.push((n, k.mat(), v.as_ref().map(B::mat)));
        }
        if resolved.is_empty() {
            return Ok(());
        }
        let names: std::collections::BTreeSet<String> = resolved.iter().map(|r| r.0.clone()).collect();
        for n in &names {
            self.pre_write(n)?;
        }
        let durability = match dur % 5 {
            0 => None,
            1 => Some(None),
            2 => Some(Some(fjall::PersistMode::Buffer)),
            3 => Some(Some(fjall::PersistMode::SyncData)),
            _ => Some(Some(fjall::PersistMode::SyncAll)),
        };
        let t0 = self.tick();
        match self.db.as_ref().unwrap() {
            DbH::Plain(d) => {
                let mut b = d.batch();
                if let Some(m) = durability {
                    b = b.durability(m);
                }
                for (n, k, v) in &resolved {
                    let h = &self.ks[n];
                    match v {
                        Some(v) => b.insert(&h.ks, k.clone(), v.clone()),
                        None => b.remove(&h.ks, k.clone()),
                    }
                }
                b.commit().map_err(es("batch commit"))?;
            }
            DbH::Single(d) => {
                // SAFETY of lifetimes: tx does not outlive this block
                let mut tx = d.write_tx();
                if let Some(m) = durability {
                    tx = tx.durability(m);
                }
                for (n, k, v) in &resolved {
                    let h = self.ks[n].sw.as_ref().unwrap();
                    match v {
                        Some(v) => tx.insert(h, k.clone(), v.clone()),
                        None => tx.remove(h, k.clone()),
                    }
                }
                tx.commit().map_err(es("sw tx commit"))?;
            }
            DbH::Opt(d) => {
                let mut tx = d.write_tx().map_err(es("write_tx"))?;
                if let Some(m) = durability {
                    tx = tx.durability(m);
                }
                for (n, k, v) in &resolved {
                    let h = &self.ks[n].ks;
                    match v {
                        Some(v) => tx.insert(h, k.clone(), v.clone()),
                        None => tx.remove(h, k.clone()),
                    }
                }
                match tx.commit().map_err(es("opt tx commit"))? {
                    Ok(()) => {}
                    Err(_) => return Err("blind-write transaction reported Conflict".into()),
                }
            }
        }
        let t1 = self.tick();
        // last write per key wins inside one batch
        let mut last: BTreeMap<(String, Vec<u8>), Option<Vec<u8>>> = BTreeMap::new();
        for (n, k, v) in &resolved {
            last.insert((n.clone(), k.clone()), v.clone());
        }
        if last.len() < resolved.len() {
            self.st.inc("batches_with_duplicate_keys");
        }
        if self.o.check_ser && matches!(self.db, Some(DbH::Opt(_))) {
            let id = self.next_uid;
            self.next_uid += 1;
            self.ser_recs.push(TxRec {
                id,
                begin: t0,
                end: t1,
                outcome: Outcome::Committed,
                events: last
                    .iter()
                    .map(|((n, k), v)| TxEvent::Write {
                        ks: n.clone(),
                        w: match v {
                            Some(v) => TxW::Insert(B::L(k.clone()), B::L(v.clone())),
                            None => TxW::Remove(B::L(k.clone())),
                        },
                        ret: None,
                    })
                    .collect(),
            });
        }
        for ((n, k), v) in last {
            self.model_put(&n, &k, v.as_deref());
            self.wc_dirty(&n, &k);
        }
        self.st.inc("batches");
        if names.len() > 1 {
            self.st.inc("batches_multi_ks");
        }
        Ok(())
    }

    fn op_ingest(&mut self, ks: u16, items: &[(B, Option<B>)]) -> Res {
        let Some(n) = self.ks_name(ks) else { return Ok(()) };
        if self.is_fifo(&n) {
            self.st.inc("skipped_fifo_precondition");
            return Ok(());
        }
        if self.o.exclude.contains("ingest_over_journaled") {
            // known-finding exclusion: see known_findings.json (H4/H5)
            let has_unflushed = self.mem_keys.get(&n).map_or(false, |s| !s.is_empty())
                || self.sealed_keys.get(&n).map_or(false, |s| !s.is_empty());
            if has_unflushed {
                self.st.inc("excluded_known");
                return Ok(());
            }
        }
        let mut m: BTreeMap<Vec<u8>, Option<Vec<u8>>> = BTreeMap::new();
        for (k, v) in items {
            m.insert(k.mat(), v.as_ref().map(B::mat));
        }
        if self.o.exclude.contains("ingest_tombstone_over_journaled_key") {
            // known finding C04-KF1: such a tombstone is dropped from the ingestion (repair, counted)
            let j = self.journaled.get(&n).cloned().unwrap_or_default();
            let before = m.len();
            m.retain(|k, v| v.is_some() || !j.contains(k));
            if m.len() != before {
                self.st.inc("excluded_known");
            }
        }
        let h = self.ks[&n].clone();
        let nonempty_before = !self.model[&n].is_empty();
        let overlap = m.keys().any(|k| self.model[&n].contains_key(k));
        {
            let mut ing = h.ks.start_ingestion().map_err(es("start_ingestion"))?;
            for (k, v) in &m {
                match v {
                    Some(v) => ing.write(k.clone(), v.clone()).map_err(es("ingest write"))?,
                    None => ing.write_tombstone(k.clone()).map_err(es("ingest tombstone"))?,
                }
            }
            ing.finish().map_err(es("ingest finish"))?;
        }
        self.in_ingest = true;
        for (k, v) in &m {
            self.model_put(&n, k, v.as_deref());
            self.wc_dirty(&n, k);
        }
        self.in_ingest = false;
        if !m.is_empty() {
            // ingestion flushes the memtable and writes tables directly
            let mk = self.mem_keys.remove(&n).unwrap_or_default();
            let sk = self.sealed_keys.remove(&n).unwrap_or_default();
            let d = self.disk_keys.entry(n.clone()).or_default();
            d.extend(mk);
            d.extend(sk);
            d.extend(m.keys().cloned());
            self.note_maint();
            self.st.inc("ingestions");
            if nonempty_before {
                self.st.inc("ingestions_into_nonempty");
            }
            if overlap {
                self.st.inc("ingestions_over_existing_keys");
            }
        }
        Ok(())
    }

    fn op_iter_open(&mut self, src: IterSrc, ks: u16, sel: &Sel) -> Res {
        let Some(n) = self.ks_name(ks) else { return Ok(()) };
        if self.iters.len() >= 6 {
            return Ok(());
        }
        let h = self.ks[&n].clone();
        let inc = self.inc[&n];
        let empty = Map::new();
        let (it, expect, instant, tx) = match src {
            IterSrc::Keyspace => {
                if self.o.exclude.contains("ks_range_prefix_not_frozen") && !matches!(sel, Sel::All) {
                    self.st.inc("excluded_known");
                    return Ok(());
                }
                let instant = self.dbi().visible_seqno();
                let it = ks_iter(&h.ks, sel);
                (it, select(&self.model[&n], sel), instant, None)
            }
            IterSrc::View(i) => {
                let Some(j) = idx(i, self.views.len()) else { return Ok(()) };
                let v = &self.views[j];
                if v.inc.get(&n) != Some(&inc) {
                    return Ok(());
                }
                let it = rd_iter(&v.snap, &h.ks, sel);
                (it, select(v.state.get(&n).unwrap_or(&empty), sel), v.instant, None)
            }
            IterSrc::Tx(t) => {
                let Some(j) = idx(t, self.txs.len()) else { return Ok(()) };
                let tx = &self.txs[j];
                if tx.inc.get(&n) != Some(&inc) {
                    return Ok(());
                }
                let eff = tx_effective(tx, &n);
                let it = match tx.real.as_ref().unwrap() {
                    TxReal::Single(x) => rd_iter(x, &h.ks, sel),
                    TxReal::Opt(x) => rd_iter(x, &h.ks, sel),
                };
                let (uid, wver, instant) = (tx.uid, tx.wver, tx.instant);
                if self.o.check_ser {
                    // the range read is recorded as fully observed (conservative for the checker:
                    // an unconsumed iterator observed nothing, so only consumed scans are recorded)
                }
                (it, select(&eff, sel), instant, Some((uid, wver)))
            }
        };
        self.iters.push(IterS {
            it,
            expect: VecDeque::from(expect),
            ks: n,
            inc,
            instant,
            tx,
            sibling_closed: false,
            writes_since: 0,
            maint_since: 0,
        });
        self.st.inc("iters_opened");
        Ok(())
    }

    fn op_tx_begin(&mut self) -> Res {
        if self.txs.len() >= if self.o.max_txs == 0 { 5 } else { self.o.max_txs } {
            return Ok(());
        }
        let t0 = self.tick();
        let instant = self.dbi().visible_seqno();
        let real = match self.db.as_ref().unwrap() {
            DbH::Plain(_) => return Ok(()),
            DbH::Single(d) => {
                if self.sw_tx_open() {
                    return Ok(());
                }
                let tx = d.write_tx();
                // SAFETY: the boxed database outlives every transaction: transactions are
                // dropped in op_reopen / finish before the database handle is dropped.
                let tx: fjall::SingleWriterWriteTx<'static> = unsafe { std::mem::transmute(tx) };
                TxReal::Single(tx)
            }
            DbH::Opt(d) => TxReal::Opt(d.write_tx().map_err(es("write_tx"))?),
        };
        let uid = self.next_uid;
        self.next_uid += 1;
        let overlapping = self.txs.len();
        self.txs.push(TxS {
            uid,
            real: Some(real),
            base: Rc::new(self.model.clone()),
            inc: self.inc.clone(),
            overlay: BTreeMap::new(),
            wver: 0,
            instant,
            rec: TxRec {
                id: uid,
                begin: t0,
                end: 0,
                outcome: Outcome::Open,
                events: vec![],
            },
            nt_multi_write: false,
            nt_removed_resident: false,
            nt_scan_after: false,
            sibling_closed: false,
            writes_since: 0,
            maint_since: 0,
        });
        self.st.inc("tx_begun");
        if overlapping > 0 {
            self.st.inc("tx_begun_overlapping");
        }
        Ok(())
    }

    fn op_tx_read(&mut self, t: u16, ks: u16, r: &Read) -> Res {
        let Some(j) = idx(t, self.txs.len()) else { return Ok(()) };
        let Some(n) = self.ks_name(ks) else { return Ok(()) };
        if self.txs[j].inc.get(&n) != self.inc.get(&n) {
            return Ok(());
        }
        if self.o.exclude.contains("occ_size_of_untracked") && matches!(r, Read::SizeOf(_)) {
            if matches!(self.txs[j].real, Some(TxReal::Opt(_))) {
                self.st.inc("excluded_known");
                return Ok(());
            }
        }
        let h = self.ks[&n].clone();
        let tx = &self.txs[j];
        let got = match tx.real.as_ref().unwrap() {
            TxReal::Single(x) => read_rd(x, &h.ks, r),
            TxReal::Opt(x) => read_rd(x, &h.ks, r),
        }
        .map_err(|e| format!("read inside a live transaction failed: {e}"))?;
        let eff = tx_effective(tx, &n);
        let want = eval_read(&eff, r);
        let (w, m, s) = (tx.writes_since, tx.maint_since, tx.sibling_closed);
        ck!(
            got == want,
            "tx#{} (instant {}) read {r:?} on {n}: real {} but snapshot+own writes give {}",
            tx.uid,
            tx.instant,
            got.brief(),
            want.brief()
        );
        let tx = &mut self.txs[j];
        if tx.nt_multi_write && tx.nt_removed_resident && matches!(r, Read::Scan(..)) && !tx.nt_scan_after {
            tx.nt_scan_after = true;
            self.st.inc("nt_tx_multiwrite_remove_scan");
        }
        tx.rec.events.push(TxEvent::Read {
            ks: n.clone(),
            r: r.clone(),
            res: got,
        });
        self.st.inc("tx_reads");
        self.st.inc(match r {
            Read::Get(_) => "tx_read_get",
            Read::Contains(_) => "tx_read_contains",
            Read::SizeOf(_) => "tx_read_size_of",
            Read::First => "tx_read_first",
            Read::Last => "tx_read_last",
            Read::Len => "tx_read_len",
            Read::IsEmpty => "tx_read_is_empty",
            Read::Scan(Sel::All, ..) => "tx_read_iter",
            Read::Scan(Sel::Range(..), ..) => "tx_read_range",
            Read::Scan(Sel::Prefix(_), ..) => "tx_read_prefix",
        });
        self.nt_view_read(w, m, s);
        Ok(())
    }

    fn op_tx_write(&mut self, t: u16, ks: u16, w: &TxW) -> Res {
        let Some(j) = idx(t, self.txs.len()) else { return Ok(()) };
        let Some(n) = self.ks_name(ks) else { return Ok(()) };
        if self.txs[j].inc.get(&n) != self.inc.get(&n) {
            return Ok(());
        }
        if self.is_fifo(&n) {
            self.st.inc("skipped_fifo_precondition");
            return Ok(());
        }
        let h = self.ks[&n].clone();
        let eff = tx_effective(&self.txs[j], &n);
        let tx = &mut self.txs[j];
        let key = match w {
            TxW::Insert(k, _) | TxW::Remove(k) | TxW::Take(k) | TxW::FetchUpdate(k, _) | TxW::UpdateFetch(k, _) => k.mat(),
        };
        let prev = eff.get(&key).cloned();
        // model: new value + documented return value
        let (newv, want_ret): (Option<Vec<u8>>, Option<Option<Vec<u8>>>) = match w {
            TxW::Insert(_, v) => (Some(v.mat()), None),
            TxW::Remove(_) => (None, None),
            TxW::Take(_) => (None, Some(prev.clone())),
            TxW::FetchUpdate(_, f) => {
                let nv = apply_f(f, prev.as_deref());
                (nv, Some(prev.clone()))
            }
            TxW::UpdateFetch(_, f) => {
                let nv = apply_f(f, prev.as_deref());
                (nv.clone(), Some(nv))
            }
        };
        // an update that leaves the value (or the absence) unchanged is not a write
        let is_write = match w {
            TxW::Insert(..) | TxW::Remove(_) => true,
            _ => newv != prev,
        };
        let got_ret: Option<Option<Vec<u8>>> = match tx.real.as_mut().unwrap() {
            TxReal::Single(x) => {
                let hk = h.sw.as_ref().unwrap();
                match w {
                    TxW::Insert(_, v) => {
                        x.insert(hk, key.clone(), v.mat());
                        None
                    }
                    TxW::Remove(_) => {
                        x.remove(hk, key.clone());
                        None
                    }
                    TxW::Take(_) => Some(x.take(hk, key.clone()).map_err(es("tx take"))?.map(|v| v.to_vec())),
                    TxW::FetchUpdate(_, f) => Some(
                        x.fetch_update(hk, key.clone(), |p| apply_f(f, p.map(|v| &**v)).map(Into::into))
                            .map_err(es("tx fetch_update"))?
                            .map(|v| v.to_vec()),
                    ),
                    TxW::UpdateFetch(_, f) => Some(
                        x.update_fetch(hk, key.clone(), |p| apply_f(f, p.map(|v| &**v)).map(Into::into))
                            .map_err(es("tx update_fetch"))?
                            .map(|v| v.to_vec()),
                    ),
                }
            }
            TxReal::Opt(x) => {
                let hk = &h.ks;
                match w {
                    TxW::Insert(_, v) => {
                        x.insert(hk, key.clone(), v.mat());
                        None
                    }
                    TxW::Remove(_) => {
                        x.remove(hk, key.clone());
                        None
                    }
                    TxW::Take(_) => Some(x.take(hk, key.clone()).map_err(es("tx take"))?.map(|v| v.to_vec())),
                    TxW::FetchUpdate(_, f) => Some(
                        x.fetch_update(hk, key.clone(), |p| apply_f(f, p.map(|v| &**v)).map(Into::into))
                            .map_err(es("tx fetch_update"))?
                            .map(|v| v.to_vec()),
                    ),
                    TxW::UpdateFetch(_, f) => Some(
                        x.update_fetch(hk, key.clone(), |p| apply_f(f, p.map(|v| &**v)).map(Into::into))
                            .map_err(es("tx update_fetch"))?
                            .map(|v| v.to_vec()),
                    ),
                }
            }
        };
        ck!(
            got_ret == want_ret,
            "tx#{} {w:?} on {n}: returned {:?} but documented result is {:?}",
            tx.uid,
            got_ret.as_ref().map(|o| o.as_ref().map(|v| short(v))),
            want_ret.as_ref().map(|o| o.as_ref().map(|v| short(v)))
        );
        if tx.overlay.contains_key(&(n.clone(), key.clone())) {
            tx.nt_multi_write = true;
        }
        if newv.is_none() && tx.base.get(&n).map_or(false, |m| m.contains_key(&key)) {
            tx.nt_removed_resident = true;
        }
        if is_write {
            tx.overlay.insert((n.clone(), key.clone()), newv);
        }
        tx.wver += 1;
        tx.rec.events.push(TxEvent::Write {
            ks: n.clone(),
            w: w.clone(),
            ret: got_ret,
        });
        self.ever.entry(n.clone()).or_default().insert(key);
        self.st.inc("tx_writes");
        Ok(())
    }

    /// how: 0 commit, 1 rollback, 2 drop
    fn op_tx_end(&mut self, t: u16, how: u8) -> Res {
        let Some(j) = idx(t, self.txs.len()) else { return Ok(()) };
        let mut tx = self.txs.remove(j);
        // iterators created from this transaction keep their own nonce; keep them but mark source gone
        let names: std::collections::BTreeSet<String> = tx.overlay.keys().map(|k| k.0.clone()).collect();
        let real = tx.real.take().unwrap();
        let committed = if how == 0 {
            // keyspaces deleted/re-created since: writes into the old incarnation are not modelled
            if names.iter().any(|n| tx.inc.get(n) != self.inc.get(n)) {
                drop(real);
                self.st.inc("tx_dropped_stale_ks");
                false
            } else {
                for n in &names {
                    self.pre_write(n)?;
                }
                match real {
                    TxReal::Single(x) => {
                        x.commit().map_err(es("sw commit"))?;
                        true
                    }
                    TxReal::Opt(x) => match x.commit().map_err(es("opt commit"))? {
                        Ok(()) => true,
                        Err(_) => {
                            self.st.inc("tx_conflicts");
                            tx.rec.outcome = Outcome::Conflict;
                            false
                        }
                    },
                }
            }
        } else if how == 1 {
            match real {
                TxReal::Single(x) => x.rollback(),
                TxReal::Opt(x) => x.rollback(),
            }
            tx.rec.outcome = Outcome::RolledBack;
            self.st.inc("tx_rollbacks");
            false
        } else {
            drop(real);
            tx.rec.outcome = Outcome::RolledBack;
            self.st.inc("tx_drops");
            false
        };
        tx.rec.end = self.tick();
        if committed {
            tx.rec.outcome = Outcome::Committed;
            let ov = std::mem::take(&mut tx.overlay);
            for ((n, k), v) in ov {
                self.model_put(&n, &k, v.as_deref());
                self.wc_dirty(&n, &k);
            }
            self.st.inc("tx_commits");
            if tx.nt_multi_write && tx.nt_removed_resident && tx.nt_scan_after {
                self.st.inc("tx_commits_after_multiwrite_remove_scan");
            }
        }
        if self.o.check_ser {
            self.ser_recs.push(tx.rec.clone());
        }
        let inst = tx.instant;
        drop(tx);
        self.holder_closed(inst);
        Ok(())
    }

    fn op_auto(&mut self, ks: u16, w: &TxW) -> Res {
        let Some(n) = self.ks_name(ks) else { return Ok(()) };
        if self.sw_tx_open() {
            self.st.inc("skipped_sw_tx_open");
            return Ok(());
        }
        let h = self.ks[&n].clone();
        if h.sw.is_none() && h.opt.is_none() {
            return Ok(());
        }
        if self.is_fifo(&n) {
            self.st.inc("skipped_fifo_precondition");
            return Ok(());
        }
        self.pre_write(&n)?;
        let key = match w {
            TxW::Insert(k, _) | TxW::Remove(k) | TxW::Take(k) | TxW::FetchUpdate(k, _) | TxW::UpdateFetch(k, _) => k.mat(),
        };
        let prev = self.model[&n].get(&key).cloned();
        let (newv, want_ret): (Option<Vec<u8>>, Option<Option<Vec<u8>>>) = match w {
            TxW::Insert(_, v) => (Some(v.mat()), None),
            TxW::Remove(_) => (None, None),
            TxW::Take(_) => (None, Some(prev.clone())),
            TxW::FetchUpdate(_, f) => (apply_f(f, prev.as_deref()), Some(prev.clone())),
            TxW::UpdateFetch(_, f) => {
                let nv = apply_f(f, prev.as_deref());
                (nv.clone(), Some(nv))
            }
        };
        let t0 = self.tick();
        macro_rules! helper {
            ($x:expr) => {
                match w {
                    TxW::Insert(_, v) => {
                        $x.insert(key.clone(), v.mat()).map_err(es("auto insert"))?;
                        None
                    }
                    TxW::Remove(_) => {
                        $x.remove(key.clone()).map_err(es("auto remove"))?;
                        None
                    }
                    TxW::Take(_) => Some($x.take(key.clone()).map_err(es("auto take"))?.map(|v| v.to_vec())),
                    TxW::FetchUpdate(_, f) => Some(
                        $x.fetch_update(key.clone(), |p| apply_f(f, p.map(|v| &**v)).map(Into::into))
                            .map_err(es("auto fetch_update"))?
                            .map(|v| v.to_vec()),
                    ),
                    TxW::UpdateFetch(_, f) => Some(
                        $x.update_fetch(key.clone(), |p| apply_f(f, p.map(|v| &**v)).map(Into::into))
                            .map_err(es("auto update_fetch"))?
                            .map(|v| v.to_vec()),
                    ),
                }
            };
        }
        let got_ret: Option<Option<Vec<u8>>> = if let Some(x) = &h.sw {
            helper!(x)
        } else {
            let x = h.opt.as_ref().unwrap();
            helper!(x)
        };
        let t1 = self.tick();
        ck!(
            got_ret == want_ret,
            "helper {w:?} on {n}: returned {:?} but documented result is {:?}",
            got_ret.as_ref().map(|o| o.as_ref().map(|v| short(v))),
            want_ret.as_ref().map(|o| o.as_ref().map(|v| short(v)))
        );
        if self.o.check_ser && h.opt.is_some() {
            let id = self.next_uid;
            self.next_uid += 1;
            self.ser_recs.push(TxRec {
                id,
                begin: t0,
                end: t1,
                outcome: Outcome::Committed,
                events: vec![TxEvent::Write {
                    ks: n.clone(),
                    w: w.clone(),
                    ret: got_ret,
                }],
            });
        }
        self.model_put(&n, &key, newv.as_deref());
        self.wc_dirty(&n, &key);
        self.st.inc("auto_helpers");
        Ok(())
    }

    fn op_delete_ks(&mut self, ks: u16, keep_handle: bool) -> Res {
        let Some(n) = self.ks_name(ks) else { return Ok(()) };
        if self.model.len() <= 1 {
            return Ok(());
        }
        if self.sw_tx_open() {
            return Ok(());
        }
        let h = self.ks.remove(&n).unwrap();
        let path = h.ks.path().to_path_buf();
        let id = h.ks.id();
        let max_id = self.ks.values().map(|k| k.ks.id()).max().unwrap_or(0);
        if self.o.exclude.contains("delete_highest_id_reuse") && id > max_id {
            // known-finding exclusion (H6): keep the case but do not delete the highest id
            self.ks.insert(n, h);
            self.st.inc("excluded_known");
            return Ok(());
        }
        self.dbi()
            .delete_keyspace(h.ks.clone())
            .map_err(es("delete_keyspace"))?;
        ck!(!self.dbi().keyspace_exists(&n), "keyspace_exists({n}) after delete");
        ck!(
            !self.dbi().list_keyspace_names().iter().any(|x| &**x == n.as_str()),
            "deleted keyspace {n} still listed"
        );
        self.model.remove(&n);
        self.inc.remove(&n);
        self.kscfg.remove(&n);
        self.mem_keys.remove(&n);
        self.sealed_keys.remove(&n);
        self.disk_keys.remove(&n);
        self.last_counts.remove(&n);
        self.st.inc("delete_ks");
        if id > max_id {
            self.st.inc("delete_highest_id");
            if self.c12_stage == 0 {
                self.c12_stage = 1;
            }
        }
        // write through the old handle must be refused right away
        match h.ks.insert("zz", "zz") {
            Err(e) if is_deleted_err(&e) => {}
            other => return Err(format!("insert through deleted keyspace handle returned {other:?}")),
        }
        match h.ks.remove("zz") {
            Err(e) if is_deleted_err(&e) => {}
            other => return Err(format!("remove through deleted keyspace handle returned {other:?}")),
        }
        if keep_handle {
            self.stale.push(StaleS { name: n, h, path });
        } else {
            self.deleted_dirs.push(path);
            drop(h);
        }
        Ok(())
    }

    pub fn close_all(&mut self) {
        self.iters.clear();
        let insts: Vec<u64> = self.views.iter().map(|v| v.instant).collect();
        self.views.clear();
        for t in &mut self.txs {
            t.real.take();
            if self.o.check_ser {
                let mut r = t.rec.clone();
                r.outcome = Outcome::RolledBack;
                r.end = self.ticket + 1;
                self.ser_recs.push(r);
            }
        }
        self.txs.clear();
        let _ = insts;
        for s in self.stale.drain(..) {
            self.deleted_dirs.push(s.path.clone());
        }
        self.ks.clear();
        self.db = None;
    }

    /// Known finding C18-KF1 (see known_findings.json): a key removed by the compaction filter
    /// comes back after a reopen when its journal record is newer than everything left in the
    /// keyspace's tables. The case is repaired instead of rejected: a keep-class sentinel is
    /// written and flushed first, so the tables' highest seqno covers the filtered records.
    fn c18_repair_before_reopen(&mut self) -> Res {
        let names = self.names();
        for n in names {
            if !self.filtered(&n) {
                continue;
            }
            let need = self
                .ever
                .get(&n)
                .map_or(false, |s| s.iter().any(|k| filt::class_of(k) == filt::Class::Remove));
            if !need {
                continue;
            }
            let mut i = 0;
            let fifo = self.is_fifo(&n);
            let key = loop {
                let k = if fifo {
                    self.fifo_key(b"s")
                } else {
                    format!("zz-sentinel-{i}").into_bytes()
                };
                if filt::class_of(&k) == filt::Class::Keep {
                    break k;
                }
                i += 1;
            };
            self.do_write(&n, &key, Some(b"s"), false)?;
            let h = self.ks[&n].clone();
            h.ks.rotate_memtable().map_err(es("rotate (repair)"))?;
            self.drain()?;
            self.st.inc("excluded_known");
        }
        Ok(())
    }

    fn op_reopen(&mut self, alt: u8) -> Res {
        if self.o.c18 && self.o.exclude.contains("c18_filter_removed_then_reopen") && !self.sw_tx_open() {
            self.c18_repair_before_reopen()?;
        }
        // finish serializability segment
        if self.o.check_ser {
            self.check_serializability()?;
        }
        let nt_candidate = self.maint_before_reopen && self.unflushed_write_since_open;
        let live_paths: std::collections::BTreeSet<std::path::PathBuf> =
            self.ks.values().map(|h| h.ks.path().to_path_buf()).collect();
        self.close_all();
        // a later keyspace may legitimately have been given the directory of a deleted one
        self.deleted_dirs.retain(|p| !live_paths.contains(p));
        if self.o.check_dirs {
            for p in &self.deleted_dirs {
                ck!(
                    !p.exists(),
                    "directory {} of a deleted keyspace still exists after every handle and the database were dropped",
                    p.display()
                );
            }
        }
        // highest batch seqno present in any journal file (read from private copies of the files)
        let journal_max = if self.o.c11_probe { journal_max_seqno(&self.dir) } else { None };
        // different open options: they must not matter for existing keyspaces
        if alt & 1 != 0 {
            self.lz4_now = !self.lz4_now;
        }
        let db = open_db(
            &self.dir,
            &self.cfg,
            &OpenOpts {
                workers: 0,
                lz4: self.lz4_now,
            },
        )
        .map_err(|e| format!("reopen failed: {e:?}"))?;
        self.db = Some(db);
        self.reopen_count += 1;
        self.st.inc("reopens");
        match self.c12_stage {
            1 => self.c12_stage = 2,
            3 => {
                self.c12_stage = 4;
                self.st.inc("nt_delete_highest_reopen_create_reopen");
            }
            _ => {}
        }
        self.recovered_disk = self
            .disk_keys
            .iter()
            .flat_map(|(n, s)| s.iter().map(move |k| (n.clone(), k.clone())))
            .collect();
        self.superseded.clear();
        if nt_candidate {
            self.st.inc("reopens_after_maint_and_unflushed_write");
        }
        if self.o.check_dirs {
            for p in &self.deleted_dirs {
                ck!(!p.exists(), "directory {} of a deleted keyspace exists after reopen", p.display());
            }
        }
        // keyspace set first
        let mut real: Vec<String> = self
            .dbi()
            .list_keyspace_names()
            .iter()
            .map(|s| s.to_string())
            .collect();
        real.sort();
        let want = self.names();
        ck!(real == want, "after reopen keyspace set is {real:?}, expected {want:?}");
        let alt_cfg = KsCfg {
            blob: if alt & 2 != 0 { Some(7) } else { None },
            memtable: if alt & 4 != 0 { 512 } else { 8 * 1024 * 1024 },
            strategy: if alt & 8 != 0 { Strat::FifoNoEvict } else { Strat::LeveledDefault },
            manual_persist: alt & 16 != 0,
        };
        for n in want {
            let h = open_ks(self.db.as_ref().unwrap(), &n, &alt_cfg).map_err(es("keyspace after reopen"))?;
            // options in force are the creation-time ones
            let kc = &self.kscfg[&n];
            ck!(
                h.ks.is_kv_separated() == kc.blob.is_some(),
                "keyspace {n}: kv separation changed across reopen"
            );
            ck!(
                h.ks.verif_max_memtable_size() == kc.memtable,
                "keyspace {n}: max_memtable_size {} != creation value {}",
                h.ks.verif_max_memtable_size(),
                kc.memtable
            );
            self.ks.insert(n, h);
        }
        // memtables were rebuilt from the journal: everything unflushed is "mem" again
        self.last_counts.clear();
        for n in self.names() {
            let h = &self.ks[&n];
            self.last_counts
                .insert(n.clone(), (h.ks.tree.sealed_memtable_count(), h.ks.tree.table_count()));
        }
        self.audit_all()?;
        self.unflushed_write_since_open = false;
        self.maint_before_reopen = false;
        if self.o.c11_probe {
            if let Some(jm) = journal_max {
                self.st.inc("journal_seqno_checks");
                ck!(
                    self.dbi().seqno() > jm,
                    "after reopen the next sequence number {} is not above the highest batch seqno {jm} still present in a journal file",
                    self.dbi().seqno()
                );
            }
            self.c11_probe()?;
        }
        self.ser_base = self.model.clone();
        self.ser_recs.clear();
        Ok(())
    }

    /// C11: after a reopen, new writes supersede everything recovered, and sequence numbers
    /// continue above everything present.
    pub fn c11_probe(&mut self) -> Res {
        let db = self.dbi().clone();
        let mut max_seen = None::<u64>;
        for h in self.ks.values() {
            if let Some(s) = h.ks.tree.get_highest_seqno() {
                max_seen = Some(max_seen.map_or(s, |m: u64| m.max(s)));
            }
        }
        if let Some(m) = max_seen {
            ck!(
                db.seqno() > m,
                "after reopen the next sequence number {} is not above the highest recovered one {m}",
                db.seqno()
            );
        }
        ck!(
            db.visible_seqno() == db.seqno(),
            "after reopen visible seqno {} != next seqno {}",
            db.visible_seqno(),
            db.seqno()
        );
        self.st.inc("c11_probes");
        // overwrite / remove every key ever used (bounded), then audit through get, scans and a new snapshot
        let names = self.names();
        let mut flip = false;
        for n in &names {
            if self.is_fifo(n) {
                continue;
            }
            let keys: Vec<Vec<u8>> = self.ever.get(n).map(|s| s.iter().take(10).cloned().collect()).unwrap_or_default();
            for k in keys {
                flip = !flip;
                let newv = format!("P{}", self.reopen_count).into_bytes();
                if flip {
                    self.do_write(n, &k, Some(&newv), false)?;
                } else {
                    self.do_write(n, &k, None, false)?;
                }
                self.wcount.insert((n.clone(), k.clone()), 2);
            }
        }
        self.audit_all()?;
        let snap = self.dbi().snapshot();
        for n in &names {
            let h = self.ks[n].clone();
            let got = read_rd(&snap, &h.ks, &Read::Scan(Sel::All, Walk::Fwd, 0))?;
            let want = eval_read(&self.model[n], &Read::Scan(Sel::All, Walk::Fwd, 0));
            ck!(
                got == want,
                "after reopen a new snapshot on {n} shows {} but recovered data plus writes since give {}",
                got.brief(),
                want.brief()
            );
        }
        drop(snap);
        // exercise meta-keyspace sequence numbers: create and delete a keyspace
        if let Some(free) = NAMES.iter().find(|x| !self.model.contains_key(**x)) {
            let free = (*free).to_string();
            self.create_ks(&free, &KsCfg::default())?;
            self.do_write(&free, b"probe", Some(b"x"), false)?;
            self.audit_ks(&free)?;
            let pos = self.names().iter().position(|x| *x == free).unwrap();
            let i = ((pos * 65536 + 65535) / self.names().len()).min(65535) as u16;
            debug_assert_eq!(self.ks_name(i).as_deref(), Some(free.as_str()));
            if self.ks_name(i).as_deref() == Some(free.as_str()) {
                self.op_delete_ks(i, false)?;
            }
            self.audit_all()?;
        }
        Ok(())
    }

    pub fn finish(&mut self) -> Res {
        self.sample_counts();
        self.audit_all()?;
        if self.o.check_ser {
            self.check_serializability()?;
        }
        Ok(())
    }
}

pub fn tx_effective(tx: &TxS, name: &str) -> Map {
    let mut m = tx.base.get(name).cloned().unwrap_or_default();
    for ((n, k), v) in &tx.overlay {
        if n == name {
            match v {
                Some(v) => {
                    m.insert(k.clone(), v.clone());
                }
                None => {
                    m.remove(k);
                }
            }
        }
    }
    m
}

#[derive(Debug)]
pub struct RunOut {
    pub stats: Stats,
    pub failure: Option<Failure>,
    pub steps: usize,
}

/// Runs one case in a fresh directory. Panics inside fjall are caught and reported as failures.
pub fn run_case(dir: &std::path::Path, case: &Case, o: &Opts) -> RunOut {
    let _ = std::fs::remove_dir_all(dir);
    let mut w = World::new(dir, &case.cfg, o);
    let trace = std::env::var("FJV_TRACE").is_ok();
    let res = std::panic::catch_unwind(std::panic::AssertUnwindSafe(|| -> Result<(), Failure> {
        w.start().map_err(|m| Failure { step: 0, msg: m })?;
        for (i, op) in case.ops.iter().enumerate() {
            w.step = i;
            if trace {
                eprintln!(
                    "[{i}] {op:?}\n      before: seqno={} visible={} open_snapshots={} gc_watermark={}",
                    w.dbi().seqno(),
                    w.dbi().visible_seqno(),
                    w.dbi().supervisor.snapshot_tracker.open_snapshots(),
                    w.dbi().supervisor.snapshot_tracker.get_seqno_safe_to_gc()
                );
            }
            w.exec(op).map_err(|m| Failure { step: i, msg: m })?;
            w.sample_counts();
        }
        w.step = case.ops.len();
        w.finish().map_err(|m| Failure {
            step: case.ops.len(),
            msg: m,
        })?;
        Ok(())
    }));
    let failure = match res {
        Ok(Ok(())) => None,
        Ok(Err(f)) => Some(f),
        Err(p) => {
            let msg = if let Some(s) = p.downcast_ref::<String>() {
                s.clone()
            } else if let Some(s) = p.downcast_ref::<&str>() {
                (*s).to_string()
            } else {
                "panic".to_string()
            };
            Some(Failure {
                step: w.step,
                msg: format!("panic: {msg}"),
            })
        }
    };
    let steps = w.step;
    let stats = w.st.clone();
    // orderly teardown even after a failure
    let _ = std::panic::catch_unwind(std::panic::AssertUnwindSafe(|| {
        w.close_all();
    }));
    drop(w);
    let _ = std::fs::remove_dir_all(dir);
    RunOut {
        stats,
        failure,
        steps,
    }
}

/// max batch seqno over all journal files of a closed database directory; reads private copies
pub fn journal_max_seqno(dir: &std::path::Path) -> Option<u64> {
    use std::io::Read;
    let mut max = None;
    let tmp = dir.with_extension("jnlcopy");
    for e in std::fs::read_dir(dir).ok()?.flatten() {
        let p = e.path();
        if p.extension().map_or(true, |x| x != "jnl") {
            continue;
        }
        let mut buf = vec![0u8; 8 * 1024 * 1024];
        let n = std::fs::File::open(&p).ok()?.read(&mut buf).unwrap_or(0);
        buf.truncate(n);
        while buf.last() == Some(&0) {
            buf.pop();
        }
        if std::fs::write(&tmp, &buf).is_err() {
            continue;
        }
        if let Ok(Some(m)) = fjall::verif::journal_max_seqno(&tmp) {
            max = Some(max.map_or(m, |x: u64| x.max(m)));
        }
    }
    let _ = std::fs::remove_file(&tmp);
    max
}
