//! C03: all-or-nothing batches for every byte offset at which the journal can end.
//! The final operation of each program is a batch / transaction; its journal bytes are located
//! from the interposer log; then the journal is cut at every offset (zero padded and truncated)
//! and the real recovery code runs on each image.

use crate::case::*;
use crate::driver::*;
use crate::e2::*;
use crate::e2drv::*;
use crate::gen::{case_s, key_s, val_s, Profile};
use proptest::collection::vec;
use proptest::prelude::*;
use proptest::strategy::{Strategy, ValueTree};
use serde_json::json;
use std::collections::BTreeMap;
use std::path::{Path, PathBuf};

#[derive(Clone)]
pub struct FileImg {
    pub rel: PathBuf,
    pub is_dir: bool,
    pub len: u64,
    /// content without trailing zeros
    pub data: Vec<u8>,
}

pub fn snapshot_dir(root: &Path) -> Vec<FileImg> {
    fn walk(root: &Path, dir: &Path, out: &mut Vec<FileImg>) {
        let mut ents: Vec<_> = std::fs::read_dir(dir).map(|r| r.flatten().collect()).unwrap_or_default();
        ents.sort_by_key(|e: &std::fs::DirEntry| e.file_name());
        for e in ents {
            let p = e.path();
            let rel = p.strip_prefix(root).unwrap().to_path_buf();
            if p.is_dir() {
                out.push(FileImg { rel, is_dir: true, len: 0, data: vec![] });
                walk(root, &p, out);
            } else {
                let len = p.metadata().map(|m| m.len()).unwrap_or(0);
                let mut data = if len > 4 * 1024 * 1024 {
                    // sparse pre-allocated journal: read the leading part only
                    use std::io::Read;
                    let mut f = std::fs::File::open(&p).unwrap();
                    let mut buf = vec![0u8; 4 * 1024 * 1024];
                    let n = f.read(&mut buf).unwrap_or(0);
                    buf.truncate(n);
                    buf
                } else {
                    std::fs::read(&p).unwrap_or_default()
                };
                while data.last() == Some(&0) {
                    data.pop();
                }
                out.push(FileImg { rel, is_dir: false, len, data });
            }
        }
    }
    let mut out = vec![];
    walk(root, root, &mut out);
    out
}

pub fn restore_dir(root: &Path, img: &[FileImg]) {
    let _ = std::fs::remove_dir_all(root);
    std::fs::create_dir_all(root).unwrap();
    for f in img {
        let p = root.join(&f.rel);
        if f.is_dir {
            std::fs::create_dir_all(&p).unwrap();
        } else {
            use std::io::Write;
            let mut h = std::fs::File::create(&p).unwrap();
            h.write_all(&f.data).unwrap();
            h.set_len(f.len).unwrap();
        }
    }
}

pub fn final_batch_s(p: &Profile) -> BoxedStrategy<Op> {
    (
        vec((any::<u16>(), key_s(p), prop::option::weighted(0.8, val_s(p))), 1..12),
        prop_oneof![Just(0u8), Just(2), Just(3), Just(4)],
    )
        .prop_map(|(items, dur)| Op::Batch { items, dur })
        .boxed()
}

pub fn shard_torn(def: &E2Def, tier: &str, seed: u64, shard: u32, programs: u32) -> ShardOut {
    silence_panics();
    let thorough = tier == "thorough";
    let base = scratch_root().join(format!("e2t{shard}"));
    let sb = Sandbox::new(&base);
    let mut r = runner(1, seed_bytes(seed, shard, def.id));
    let cs = case_s(&def.profile);
    let fs = final_batch_s(&def.profile);
    let mut out = ShardOut::default();
    let mut stats: BTreeMap<String, u64> = BTreeMap::new();
    let mut rng = seed ^ (u64::from(shard) << 40) ^ 0xfeed_beef;
    let mut next = move || {
        rng ^= rng << 13;
        rng ^= rng >> 7;
        rng ^= rng << 17;
        rng
    };
    'prog: for _ in 0..programs {
        let mut case = cs.new_tree(&mut r).unwrap().current();
        case.ops.push(fs.new_tree(&mut r).unwrap().current());
        let cr = match count_run(&sb, &case) {
            Ok(c) => c,
            Err(e) => {
                if e.starts_with("UNINJECTED-RUN-FAILED") {
                    out.failure = Some(uninjected_failure(def.id, &case, &e));
                    break 'prog;
                }
                *stats.entry("count_run_failed".into()).or_insert(0) += 1;
                continue;
            }
        };
        let m = case.ops.len();
        // journal bytes of the final operation
        let first_call = cr.states[m - 1].calls;
        let jw: Vec<&LogLine> = cr.log.iter().filter(|l| l.seq >= first_call && l.op == "write" && is_jnl(&l.path) && l.ret > 0).collect();
        if jw.is_empty() || cr.states[m - 1].state == cr.states[m].state {
            *stats.entry("final_batch_without_effect".into()).or_insert(0) += 1;
            continue;
        }
        let file = jw[0].path.clone();
        if jw.iter().any(|l| l.path != file) {
            *stats.entry("final_batch_spans_journals".into()).or_insert(0) += 1;
            continue;
        }
        let start = jw.iter().map(|l| l.off).min().unwrap() as u64;
        let end = jw.iter().map(|l| l.off + l.ret).max().unwrap() as u64;
        *stats.entry("programs".into()).or_insert(0) += 1;
        if jw.len() > 1 {
            *stats.entry("final_batch_multi_write".into()).or_insert(0) += 1;
        }
        let img = snapshot_dir(&sb.root);
        let jrel = Path::new(&file).strip_prefix(&sb.root).unwrap().to_path_buf();
        let jimg = img.iter().position(|f| f.rel == jrel).expect("journal in image");
        let prealloc = img[jimg].len > end;
        *stats.entry(if prealloc { "final_batch_in_preallocated_journal" } else { "final_batch_in_append_mode_journal" }.into()).or_insert(0) += 1;
        let items = match case.ops.last() {
            Some(Op::Batch { items, .. }) => items.len(),
            _ => 0,
        };
        let multi = items >= 2;
        // cut offsets
        let span = end - start;
        let mut cuts: Vec<u64> = if thorough && span <= 20_000 || span <= 1500 {
            (start..end).collect()
        } else {
            let want = if thorough { 6000 } else { 700 };
            let mut v: Vec<u64> = (0..want).map(|_| start + next() % span).collect();
            // always the edges and the write boundaries
            v.extend([start, start + 1, end - 1, end - 2, end - 5, end - 13]);
            for l in &jw {
                v.push(l.off as u64);
                v.push((l.off + l.ret - 1) as u64);
            }
            v.retain(|x| *x >= start && *x < end);
            v.sort();
            v.dedup();
            v
        };
        let exhaustive = cuts.len() as u64 == span;
        if exhaustive {
            *stats.entry("programs_exhaustive_offsets".into()).or_insert(0) += 1;
        }
        cuts.dedup();
        let h = case_hash(&case);
        for x in cuts {
            for mode in 0..2u8 {
                // mode 0: zero padding after the cut (pre-allocated file); mode 1: file ends at the cut
                let mut im = img.clone();
                let j = &mut im[jimg];
                let keep = (x as usize).min(j.data.len());
                j.data.truncate(keep);
                if mode == 1 {
                    j.len = x;
                } else if j.len < end {
                    j.len = end;
                }
                restore_dir(&sb.root, &im);
                out.evaluations += 1;
                let res = recover_and_match(&sb.root, &case.cfg, &cr.states, m - 1, m - 1, false).and_then(|rec| post_recovery_probe(&sb.root, &case.cfg, &rec.state));
                match res {
                    Ok(()) => {
                        if multi && x > start {
                            out.nt_hashes.push(case_hash(&(h, x, mode)));
                            if out.samples.len() < 2 {
                                out.samples.push(json!({"case": case, "journal": jrel, "batch_bytes": [start, end], "cut_at": x, "mode": if mode == 0 { "zero-padded" } else { "truncated" }}));
                            }
                        }
                    }
                    Err(e) => {
                        let msg = format!("journal {} cut at byte {x} (final batch occupies {start}..{end}, {}): {e}", jrel.display(), if mode == 0 { "zero padded" } else { "file ends there" });
                        out.failure = Some(FailureOut {
                            case: json!({"property": def.id, "case": case, "inject": {"kill": null, "fail": null, "scope_jnl": false}, "cut": {"at": x, "mode": mode}, "failure": {"msg": msg}}),
                            msg,
                            step: m - 1,
                            original_msg: String::new(),
                        });
                        break 'prog;
                    }
                }
            }
        }
        // every split point of the final write() call(s): real torn kills
        let torn: Vec<(i64, i64)> = {
            let mut v = vec![];
            for l in &jw {
                let n = if thorough { 40 } else { 6 };
                for k in 0..n {
                    let t = 1 + (next() % (l.ret.max(2) as u64 - 1)) as i64;
                    v.push((l.seq as i64, t));
                    let _ = k;
                }
            }
            v
        };
        for (n, t) in torn {
            out.evaluations += 1;
            *stats.entry("real_torn_kills".into()).or_insert(0) += 1;
            match kill_and_check(&sb, &case, &cr, n, t) {
                Ok(_) => {
                    if multi {
                        out.nt_hashes.push(case_hash(&(h, n, t, 9u8)));
                    }
                }
                Err(e) if e.starts_with("INCONCLUSIVE") => {}
                Err(e) => {
                    out.failure = Some(FailureOut {
                        case: serde_json::to_value(&E2Replay {
                            property: def.id.into(),
                            case: case.clone(),
                            inject: Inject { kill: Some((n, t)), fail: None, scope_jnl: false },
                            cut: None,
                            extra: None,
                            failure: json!({"msg": e}),
                        })
                        .unwrap(),
                        msg: e,
                        step: n as usize,
                        original_msg: String::new(),
                    });
                    break 'prog;
                }
            }
        }
    }
    // threaded supplement: batches committed while workers flush and the journal rotates, then a reopen
    if out.failure.is_none() {
        let n = if thorough { programs / 2 + 8 } else { programs * 2 + 4 };
        for i in 0..n {
            let s = case_hash(&(seed, shard, i, 0xc03u32));
            let rp = crate::e3::reopen_params(s);
            phase(&format!("C03 threaded reopen {}", serde_json::to_string(&rp).unwrap_or_default()));
            match crate::e3::threaded_c03(&base.join("thr"), &rp) {
                Ok((nt, fl)) => {
                    out.evaluations += 1;
                    *stats.entry("threaded_reopen_histories".into()).or_insert(0) += 1;
                    *stats.entry("threaded_reopen_tables_at_drop".into()).or_insert(0) += fl;
                    if nt {
                        out.nt_hashes.push(case_hash(&(s, 0xc03u32)));
                    }
                }
                Err(e) if e.starts_with("INCONCLUSIVE") => {
                    *stats.entry("threaded_reopen_inconclusive".into()).or_insert(0) += 1;
                }
                Err(e) => {
                    out.failure = Some(FailureOut { case: json!({"property": "C03", "threaded_reopen": rp, "failure": {"msg": e}}), msg: e, step: 0, original_msg: String::new() });
                    break;
                }
            }
        }
    }
    out.stats = stats;
    let _ = std::fs::remove_dir_all(&base);
    out
}

/// replay of a cut case
pub fn replay_cut(case: &Case, at: u64, mode: u8) -> Option<String> {
    silence_panics();
    let base = scratch_root().join("e2treplay");
    let sb = Sandbox::new(&base);
    let r = (|| -> Result<(), String> {
        let cr = count_run(&sb, case)?;
        let m = case.ops.len();
        let first_call = cr.states[m - 1].calls;
        let jw: Vec<&LogLine> = cr.log.iter().filter(|l| l.seq >= first_call && l.op == "write" && is_jnl(&l.path) && l.ret > 0).collect();
        if jw.is_empty() {
            return Err("INCONCLUSIVE: final op wrote nothing".into());
        }
        let file = jw[0].path.clone();
        let end = jw.iter().map(|l| l.off + l.ret).max().unwrap() as u64;
        let mut img = snapshot_dir(&sb.root);
        let jrel = Path::new(&file).strip_prefix(&sb.root).unwrap().to_path_buf();
        let j = img.iter_mut().find(|f| f.rel == jrel).ok_or("journal missing")?;
        let keep = (at as usize).min(j.data.len());
        j.data.truncate(keep);
        if mode == 1 {
            j.len = at;
        } else if j.len < end {
            j.len = end;
        }
        restore_dir(&sb.root, &img);
        let rec = recover_and_match(&sb.root, &case.cfg, &cr.states, m - 1, m - 1, false)?;
        post_recovery_probe(&sb.root, &case.cfg, &rec.state)
    })();
    let _ = std::fs::remove_dir_all(&base);
    r.err().filter(|e| !e.starts_with("INCONCLUSIVE"))
}
