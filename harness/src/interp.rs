//! E1 interpreter: executes a case against the real database and the reference model,
//! comparing every result; workers are stepped synchronously (0 worker threads).

use crate::case::*;
use crate::model::*;
use crate::real::*;
use fjall::{AbstractTree, Iter, Keyspace, OptimisticWriteTx, PersistMode, SingleWriterWriteTx, Snapshot};
use std::collections::{BTreeMap, BTreeSet, VecDeque};
use std::path::{Path, PathBuf};
use std::rc::Rc;

#[derive(Clone, Debug, Default)]
pub struct Opts {
    /// full audit after every maintenance op
    pub audit_after_maint: bool,
    /// tolerant audit for compaction-filtered keyspaces (C18)
    pub c18: bool,
    /// after every reopen run the "new writes supersede" probe (C11)
    pub c11_probe: bool,
    /// check keyspace directories after delete (C12)
    pub check_dirs: bool,
    /// record transaction histories and check serializability (C07)
    pub check_ser: bool,
    /// maximum number of concurrently open write transactions (0 = default 5)
    pub max_txs: usize,
    /// known-finding exclusions active (by name)
    pub exclude: BTreeSet<String>,
}

#[derive(Clone, Debug, Default)]
pub struct Stats {
    pub c: BTreeMap<&'static str, u64>,
}
impl Stats {
    pub fn inc(&mut self, k: &'static str) {
        *self.c.entry(k).or_insert(0) += 1;
    }
    pub fn add(&mut self, k: &'static str, n: u64) {
        *self.c.entry(k).or_insert(0) += n;
    }
    pub fn get(&self, k: &str) -> u64 {
        self.c.get(k).copied().unwrap_or(0)
    }
}

#[derive(Clone, Debug)]
pub struct Failure {
    pub step: usize,
    pub msg: String,
}

pub enum TxReal {
    Single(SingleWriterWriteTx<'static>),
    Opt(OptimisticWriteTx),
}

#[derive(Clone, Debug, serde::Serialize, serde::Deserialize)]
pub enum TxEvent {
    Read { ks: String, r: Read, res: ReadRes },
    Write { ks: String, w: TxW, ret: Option<Option<Vec<u8>>> },
}

#[derive(Clone, Debug, serde::Serialize, serde::Deserialize, PartialEq, Eq)]
pub enum Outcome {
    Committed,
    Conflict,
    RolledBack,
    Open,
}

#[derive(Clone, Debug, serde::Serialize, serde::Deserialize)]
pub struct TxRec {
    pub id: u64,
    pub begin: u64,
    pub end: u64,
    pub outcome: Outcome,
    pub events: Vec<TxEvent>,
}

pub struct TxS {
    pub uid: u64,
    pub real: Option<TxReal>,
    pub base: Rc<State>,
    pub inc: BTreeMap<String, u64>,
    pub overlay: BTreeMap<(String, Vec<u8>), Option<Vec<u8>>>,
    pub wver: u64,
    pub instant: u64,
    pub rec: TxRec,
    pub nt_multi_write: bool,
    pub nt_removed_resident: bool,
    pub nt_scan_after: bool,
    pub sibling_closed: bool,
    pub writes_since: u64,
    pub maint_since: u64,
}

pub struct ViewS {
    pub snap: Snapshot,
    pub state: Rc<State>,
    pub inc: BTreeMap<String, u64>,
    pub instant: u64,
    pub sibling_closed: bool,
    pub writes_since: u64,
    pub maint_since: u64,
}

pub struct IterS {
    pub it: Iter,
    pub expect: VecDeque<(Vec<u8>, Vec<u8>)>,
    pub ks: String,
    pub inc: u64,
    pub instant: u64,
    /// (tx uid, tx write version at creation) for iterators created from a transaction
    pub tx: Option<(u64, u64)>,
    pub sibling_closed: bool,
    pub writes_since: u64,
    pub maint_since: u64,
}

pub struct StaleS {
    pub name: String,
    pub h: KsH,
    pub path: PathBuf,
}

pub struct World<'a> {
    pub dir: PathBuf,
    pub cfg: Cfg,
    pub o: &'a Opts,
    pub db: Option<DbH>,
    pub ks: BTreeMap<String, KsH>,
    pub kscfg: BTreeMap<String, KsCfg>,
    pub inc: BTreeMap<String, u64>,
    pub next_inc: u64,
    pub model: State,
    pub ever: BTreeMap<String, BTreeSet<Vec<u8>>>,
    pub wcount: BTreeMap<(String, Vec<u8>), u8>,
    pub views: Vec<ViewS>,
    pub iters: Vec<IterS>,
    pub txs: Vec<TxS>,
    pub stale: Vec<StaleS>,
    pub deleted_dirs: Vec<PathBuf>,
    pub st: Stats,
    pub step: usize,
    pub ticket: u64,
    pub next_uid: u64,
    pub lz4_now: bool,
    // history for the serializability checker: state at segment start + records
    pub ser_base: State,
    pub ser_recs: Vec<TxRec>,
    // NT bookkeeping
    pub mem_keys: BTreeMap<String, BTreeSet<Vec<u8>>>,
    pub sealed_keys: BTreeMap<String, BTreeSet<Vec<u8>>>,
    pub disk_keys: BTreeMap<String, BTreeSet<Vec<u8>>>,
    pub ow_after_flush: BTreeSet<(String, Vec<u8>)>,
    pub last_counts: BTreeMap<String, (usize, usize)>,
    pub reopen_count: u64,
    pub fifo_ctr: u64,
    pub last_jc: usize,
    pub recovered_disk: BTreeSet<(String, Vec<u8>)>,
    pub superseded: BTreeSet<(String, Vec<u8>)>,
    pub c12_stage: u8,
    pub journaled: BTreeMap<String, BTreeSet<Vec<u8>>>,
    pub in_ingest: bool,
    pub unflushed_write_since_open: bool,
    pub maint_before_reopen: bool,
    pub both_paths_keys: BTreeSet<(String, Vec<u8>)>,
    pub filtered_seen: BTreeSet<(String, Vec<u8>)>,
}

pub type Res = Result<(), String>;

macro_rules! ck {
    ($cond:expr, $($arg:tt)*) => {
        if !$cond {
            return Err(format!($($arg)*));
        }
    };
}
pub(crate) use ck;

impl<'a> World<'a> {
    pub fn new(dir: &Path, cfg: &Cfg, o: &'a Opts) -> Self {
        World {
            dir: dir.to_path_buf(),
            cfg: cfg.clone(),
            o,
            db: None,
            ks: BTreeMap::new(),
            kscfg: BTreeMap::new(),
            inc: BTreeMap::new(),
            next_inc: 1,
            model: State::new(),
            ever: BTreeMap::new(),
            wcount: BTreeMap::new(),
            views: vec![],
            iters: vec![],
            txs: vec![],
            stale: vec![],
            deleted_dirs: vec![],
            st: Stats::default(),
            step: 0,
            ticket: 0,
            next_uid: 1,
            lz4_now: cfg.journal_lz4,
            ser_base: State::new(),
            ser_recs: vec![],
            mem_keys: BTreeMap::new(),
            sealed_keys: BTreeMap::new(),
            disk_keys: BTreeMap::new(),
            ow_after_flush: BTreeSet::new(),
            last_counts: BTreeMap::new(),
            reopen_count: 0,
            fifo_ctr: 0,
            last_jc: 1,
            recovered_disk: BTreeSet::new(),
            superseded: BTreeSet::new(),
            c12_stage: 0,
            journaled: BTreeMap::new(),
            in_ingest: false,
            unflushed_write_since_open: false,
            maint_before_reopen: false,
            both_paths_keys: BTreeSet::new(),
            filtered_seen: BTreeSet::new(),
        }
    }

    pub fn dbi(&self) -> &fjall::Database {
        self.db.as_ref().expect("db open").inner()
    }

    pub fn tick(&mut self) -> u64 {
        self.ticket += 1;
        self.ticket
    }

    /// Opens the database and the initial keyspaces
    pub fn start(&mut self) -> Res {
        let db = open_db(
            &self.dir,
            &self.cfg,
            &OpenOpts {
                workers: 0,
                lz4: self.lz4_now,
            },
        )
        .map_err(es("open"))?;
        self.db = Some(db);
        let kss = self.cfg.ks.clone();
        for (i, kc) in kss.iter().enumerate().take(NAMES.len()) {
            self.create_ks(NAMES[i], kc)?;
        }
        self.ser_base = self.model.clone();
        Ok(())
    }

    pub fn create_ks(&mut self, name: &str, kc: &KsCfg) -> Res {
        let h = open_ks(self.db.as_ref().unwrap(), name, kc).map_err(es("keyspace"))?;
        if self.model.contains_key(name) {
            // opening an existing name returns the existing content
            self.ks.insert(name.to_string(), h);
            self.st.inc("open_existing_ks");
            return self.audit_ks(name);
        }
        self.ks.insert(name.to_string(), h);
        self.kscfg.insert(name.to_string(), kc.clone());
        self.model.insert(name.to_string(), Map::new());
        self.inc.insert(name.to_string(), self.next_inc);
        self.next_inc += 1;
        self.mem_keys.remove(name);
        self.sealed_keys.remove(name);
        self.disk_keys.remove(name);
        self.journaled.remove(name);
        self.st.inc("create_ks");
        if self.c12_stage == 2 {
            self.c12_stage = 3;
        }
        // a newly created keyspace must be empty (also for every key ever used under that name)
        self.audit_ks(name)
    }

    pub fn names(&self) -> Vec<String> {
        self.model.keys().cloned().collect()
    }

    pub fn ks_name(&self, i: u16) -> Option<String> {
        let n = self.names();
        idx(i, n.len()).map(|j| n[j].clone())
    }

    pub fn filtered(&self, name: &str) -> bool {
        NAMES
            .iter()
            .position(|n| *n == name)
            .map_or(false, |i| self.cfg.filter_mask & (1 << i) != 0)
    }

    // ---------------------------------------------------------------- worker stepping
    pub fn step_worker(&mut self) -> Result<bool, String> {
        let r = self
            .dbi()
            .verif_worker_step()
            .map_err(es("worker step"))?;
        if r {
            self.st.inc("worker_steps");
        }
        Ok(r)
    }

    pub fn drain(&mut self) -> Res {
        let mut n = 0;
        while self.step_worker()? {
            n += 1;
            ck!(n < 100_000, "worker queue does not drain");
        }
        Ok(())
    }

    /// Sound-generator rule: never enter a write that would spin in back-pressure because
    /// no worker thread exists; step the workers first (counted as forced steps).
    pub fn pre_write(&mut self, name: &str) -> Res {
        let Some(h) = self.ks.get(name).cloned() else {
            return Ok(());
        };
        let mut guard = 0;
        loop {
            let sealed = h.ks.tree.sealed_memtable_count();
            let l0 = h.ks.tree.l0_run_count();
            let pending = self.dbi().verif_pending();
            if sealed >= 3 || l0 >= 18 || pending > 400 {
                if self.step_worker()? {
                    self.st.inc("forced_steps");
                } else if l0 >= 18 {
                    h.ks.major_compact().map_err(es("forced major_compact"))?;
                    self.st.inc("forced_major");
                } else if sealed >= 3 {
                    return Err(format!(
                        "{sealed} sealed memtables but no queued flush message (writers would stall forever)"
                    ));
                } else {
                    break;
                }
            } else {
                break;
            }
            guard += 1;
            ck!(guard < 10_000, "pre_write does not converge");
        }
        Ok(())
    }

    /// samples memtable/table counters to track where keys live (NT bookkeeping only)
    pub fn sample_counts(&mut self) {
        if self.db.is_some() {
            let jc = self.dbi().journal_count();
            if jc > self.last_jc {
                self.st.inc("journal_rotations");
            } else if jc < self.last_jc {
                self.st.inc("journal_evictions");
            }
            self.last_jc = jc;
        }
        let names: Vec<String> = self.ks.keys().cloned().collect();
        for n in names {
            let h = &self.ks[&n];
            let now = (h.ks.tree.sealed_memtable_count(), h.ks.tree.table_count());
            let prev = self.last_counts.get(&n).copied().unwrap_or((0, 0));
            if now.0 > prev.0 {
                let m = self.mem_keys.remove(&n).unwrap_or_default();
                self.sealed_keys.entry(n.clone()).or_default().extend(m);
                self.st.inc("rotations");
            }
            if now.0 < prev.0 || now.1 != prev.1 {
                let s = self.sealed_keys.remove(&n).unwrap_or_default();
                if now.0 < prev.0 {
                    self.st.inc("flushes");
                } else {
                    self.st.inc("table_changes");
                }
                self.disk_keys.entry(n.clone()).or_default().extend(s);
                self.note_maint();
            }
            self.last_counts.insert(n, now);
        }
    }

    pub fn note_maint(&mut self) {
        self.maint_before_reopen = true;
        for v in &mut self.views {
            v.maint_since += 1;
        }
        for v in &mut self.iters {
            v.maint_since += 1;
        }
        for v in &mut self.txs {
            v.maint_since += 1;
        }
    }

    pub fn note_write(&mut self, name: &str, key: &[u8]) {
        self.ever
            .entry(name.to_string())
            .or_default()
            .insert(key.to_vec());
        self.mem_keys
            .entry(name.to_string())
            .or_default()
            .insert(key.to_vec());
        self.unflushed_write_since_open = true;
        if self
            .disk_keys
            .get(name)
            .map_or(false, |s| s.contains(key))
        {
            self.ow_after_flush.insert((name.to_string(), key.to_vec()));
            self.both_paths_keys.insert((name.to_string(), key.to_vec()));
        }
        if self.recovered_disk.contains(&(name.to_string(), key.to_vec())) {
            self.superseded.insert((name.to_string(), key.to_vec()));
        }
        if self.filtered_seen.remove(&(name.to_string(), key.to_vec())) {
            self.st.inc("nt_overwrite_of_filtered_key");
        }
        for v in &mut self.views {
            v.writes_since += 1;
        }
        for v in &mut self.iters {
            v.writes_since += 1;
        }
        for v in &mut self.txs {
            v.writes_since += 1;
        }
    }

    pub fn note_read_key(&mut self, name: &str, key: &[u8]) {
        if self.ow_after_flush.contains(&(name.to_string(), key.to_vec())) {
            self.st.inc("nt_read_overwritten_after_flush");
        }
        if self.superseded.contains(&(name.to_string(), key.to_vec())) {
            self.st.inc("nt_read_superseded_table_key");
        }
        if self.reopen_count > 0
            && self
                .both_paths_keys
                .contains(&(name.to_string(), key.to_vec()))
        {
            self.st.inc("nt_read_both_paths_after_reopen");
        }
    }

    pub fn note_read(&mut self, name: &str, r: &Read) {
        match r {
            Read::Get(k) | Read::Contains(k) | Read::SizeOf(k) => {
                let k = k.mat();
                self.note_read_key(name, &k);
                self.st.inc("point_reads");
            }
            Read::Scan(_, w, _) => {
                self.st.inc("scans");
                if let Walk::Ends(_) = w {
                    self.st.inc("scans_both_ends");
                }
                if self.ow_after_flush.iter().any(|(n, _)| n == name) {
                    self.st.inc("nt_scan_over_overwritten_after_flush");
                }
            }
            _ => {
                self.st.inc("agg_reads");
            }
        }
    }

    // ---------------------------------------------------------------- audits
    pub fn audit_all(&mut self) -> Res {
        for n in self.names() {
            self.audit_ks(&n)?;
        }
        // keyspace set
        let mut real: Vec<String> = self
            .dbi()
            .list_keyspace_names()
            .iter()
            .map(|s| s.to_string())
            .collect();
        real.sort();
        let want = self.names();
        ck!(
            real == want,
            "keyspace set differs: real {real:?} vs model {want:?}"
        );
        for n in &want {
            ck!(self.dbi().keyspace_exists(n), "keyspace_exists({n}) is false");
        }
        ck!(
            self.dbi().keyspace_count() == want.len(),
            "keyspace_count {} != {}",
            self.dbi().keyspace_count(),
            want.len()
        );
        self.st.inc("audits");
        Ok(())
    }

    pub fn audit_ks(&mut self, name: &str) -> Res {
        let Some(h) = self.ks.get(name).cloned() else {
            return Ok(());
        };
        let ks = &h.ks;
        // forward scan
        let mut fwd: Vec<(Vec<u8>, Vec<u8>)> = vec![];
        for g in ks.iter() {
            let (k, v) = g.into_inner().map_err(es("audit iter"))?;
            fwd.push((k.to_vec(), v.to_vec()));
        }
        if self.o.c18 && self.filtered(name) {
            self.reconcile_filtered(name, &fwd)?;
        }
        let model = self.model.get(name).cloned().unwrap_or_default();
        let want: Vec<(Vec<u8>, Vec<u8>)> = model.iter().map(|(k, v)| (k.clone(), v.clone())).collect();
        if fwd != want {
            return Err(format!(
                "audit[{name}]: forward scan differs from model: {}",
                diff(&fwd, &want)
            ));
        }
        let mut rev: Vec<(Vec<u8>, Vec<u8>)> = vec![];
        for g in ks.iter().rev() {
            let (k, v) = g.into_inner().map_err(es("audit rev iter"))?;
            rev.push((k.to_vec(), v.to_vec()));
        }
        rev.reverse();
        if rev != want {
            return Err(format!(
                "audit[{name}]: reverse scan differs from model: {}",
                diff(&rev, &want)
            ));
        }
        // point reads for every key ever used
        let ever: Vec<Vec<u8>> = self
            .ever
            .get(name)
            .map(|s| s.iter().cloned().collect())
            .unwrap_or_default();
        for k in &ever {
            self.note_read_key(name, k);
            let g = ks.get(k).map_err(es("audit get"))?.map(|v| v.to_vec());
            let w = model.get(k).cloned();
            ck!(
                g == w,
                "audit[{name}]: get({}) = {} but model (and scan) say {}",
                short(k),
                g.as_ref().map_or("None".into(), |v| short(v)),
                w.as_ref().map_or("None".into(), |v| short(v))
            );
            let c = ks.contains_key(k).map_err(es("audit contains"))?;
            ck!(c == w.is_some(), "audit[{name}]: contains_key({}) = {c}", short(k));
            let s = ks.size_of(k).map_err(es("audit size_of"))?;
            ck!(
                s == w.as_ref().map(|v| v.len() as u32),
                "audit[{name}]: size_of({}) = {s:?}",
                short(k)
            );
        }
        let l = ks.len().map_err(es("audit len"))?;
        ck!(l == model.len(), "audit[{name}]: len {l} != {}", model.len());
        let e = ks.is_empty().map_err(es("audit is_empty"))?;
        ck!(e == model.is_empty(), "audit[{name}]: is_empty {e}");
        let f = guard_kv(ks.first_key_value())?;
        ck!(
            f == want.first().cloned(),
            "audit[{name}]: first_key_value {:?}",
            f.as_ref().map(|(k, _)| short(k))
        );
        let la = guard_kv(ks.last_key_value())?;
        ck!(
            la == want.last().cloned(),
            "audit[{name}]: last_key_value {:?}",
            la.as_ref().map(|(k, _)| short(k))
        );
        Ok(())
    }

    /// C18: a key whose filter verdict is remove/replace may be observed in its original or
    /// in its filtered form; once observed filtered it stays so until written again.
    fn reconcile_filtered(&mut self, name: &str, real: &[(Vec<u8>, Vec<u8>)]) -> Res {
        let realm: Map = real.iter().cloned().collect();
        let model = self.model.get_mut(name).unwrap();
        let keys: Vec<Vec<u8>> = model.keys().cloned().collect();
        for k in keys {
            let mv = model.get(&k).cloned().unwrap();
            let rv = realm.get(&k);
            if rv == Some(&mv) {
                continue;
            }
            match filt::class_of(&k) {
                filt::Class::Keep => {}
                filt::Class::Remove => {
                    if rv.is_none() {
                        model.remove(&k);
                        self.filtered_seen.insert((name.to_string(), k.clone()));
                        self.st.inc("filter_removed_observed");
                    }
                }
                filt::Class::Replace => {
                    let rep = filt::replacement(&k);
                    if rv == Some(&rep) {
                        model.insert(k.clone(), rep);
                        self.filtered_seen.insert((name.to_string(), k.clone()));
                        self.st.inc("filter_replaced_observed");
                    }
                }
            }
        }
        Ok(())
    }
}

pub fn diff(real: &[(Vec<u8>, Vec<u8>)], want: &[(Vec<u8>, Vec<u8>)]) -> String {
    let r: Map = real.iter().cloned().collect();
    let w: Map = want.iter().cloned().collect();
    let mut s = String::new();
    if r.len() != real.len() {
        s.push_str("[real scan has duplicate or unordered keys] ");
    }
    let realk: Vec<&Vec<u8>> = real.iter().map(|(k, _)| k).collect();
    let mut sorted = realk.clone();
    sorted.sort();
    if sorted != realk {
        s.push_str("[real scan not in key order] ");
    }
    let mut n = 0;
    for (k, v) in &w {
        match r.get(k) {
            None => {
                s.push_str(&format!("missing {}={}; ", short(k), short(v)));
                n += 1;
            }
            Some(rv) if rv != v => {
                s.push_str(&format!("key {}: real {} model {}; ", short(k), short(rv), short(v)));
                n += 1;
            }
            _ => {}
        }
        if n > 6 {
            break;
        }
    }
    for (k, v) in &r {
        if !w.contains_key(k) {
            s.push_str(&format!("unexpected {}={}; ", short(k), short(v)));
            n += 1;
        }
        if n > 12 {
            break;
        }
    }
    s
}

pub fn persist_mode(m: u8) -> PersistMode {
    match m % 3 {
        0 => PersistMode::Buffer,
        1 => PersistMode::SyncData,
        _ => PersistMode::SyncAll,
    }
}

pub fn is_deleted_err(e: &fjall::Error) -> bool {
    matches!(e, fjall::Error::KeyspaceDeleted)
}

pub fn _unused(_: &Keyspace) {}
