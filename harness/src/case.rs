//! Case format: a configuration plus a program (sequence of operations).
//! Everything is plain data (serde), so a case shrinks as one value and the replay file is
//! exactly this.

use serde::{Deserialize, Serialize};

/// Compact byte string: literal or generated fill (keeps 40 KiB values small in JSON).
#[derive(Clone, Debug, Serialize, Deserialize, PartialEq, Eq, Hash, PartialOrd, Ord)]
pub enum B {
    /// literal bytes
    L(Vec<u8>),
    /// `len` bytes: constant `seed` if !rnd, xorshift stream seeded by `seed` otherwise
    R { len: u32, seed: u8, rnd: bool },
    /// `len` bytes (random prefix + zero tail) chosen so that the LZ4 block of the value is exactly
    /// as long as the value itself (falls back to the closest length found)
    Z { len: u32, seed: u8 },
}

fn xs_bytes(n: usize, seed: u8) -> Vec<u8> {
    let mut v = Vec::with_capacity(n);
    let mut x: u64 = 0x9E37_79B9_7F4A_7C15 ^ (u64::from(seed) << 8 | 1);
    for _ in 0..n {
        x ^= x << 13;
        x ^= x >> 7;
        x ^= x << 17;
        v.push((x >> 24) as u8);
    }
    v
}

fn lz4_equal_len(len: usize, seed: u8) -> Vec<u8> {
    let rnd = xs_bytes(len, seed);
    let build = |r: usize| {
        let mut v = rnd[..r].to_vec();
        v.resize(len, 0);
        v
    };
    let (mut lo, mut hi) = (0usize, len);
    let mut best = build(len / 2);
    let mut best_d = usize::MAX;
    while lo <= hi {
        let mid = (lo + hi) / 2;
        let v = build(mid);
        let c = lz4_flex::compress(&v).len();
        let d = c.abs_diff(len);
        if d < best_d {
            best_d = d;
            best = v;
        }
        if c == len {
            break;
        }
        if c < len {
            lo = mid + 1;
        } else {
            if mid == 0 {
                break;
            }
            hi = mid - 1;
        }
    }
    if best_d != 0 {
        // linear refinement around the crossing point
        for r in lo.saturating_sub(40)..(lo + 40).min(len) {
            let v = build(r);
            if lz4_flex::compress(&v).len() == len {
                return v;
            }
        }
    }
    best
}

impl B {
    pub fn mat(&self) -> Vec<u8> {
        match self {
            B::L(v) => v.clone(),
            B::R { len, seed, rnd } => {
                let mut v = Vec::with_capacity(*len as usize);
                if *rnd {
                    let mut x: u64 = 0x9E37_79B9_7F4A_7C15 ^ (u64::from(*seed) << 8 | 1);
                    for _ in 0..*len {
                        x ^= x << 13;
                        x ^= x >> 7;
                        x ^= x << 17;
                        v.push((x >> 24) as u8);
                    }
                } else {
                    v.resize(*len as usize, *seed);
                }
                v
            }
            B::Z { len, seed } => lz4_equal_len(*len as usize, *seed),
        }
    }
    pub fn len(&self) -> usize {
        match self {
            B::L(v) => v.len(),
            B::R { len, .. } | B::Z { len, .. } => *len as usize,
        }
    }
}

#[derive(Clone, Copy, Debug, Serialize, Deserialize, PartialEq, Eq, Hash)]
pub enum Flavor {
    Plain,
    SingleWriter,
    Optimistic,
}

#[derive(Clone, Debug, Serialize, Deserialize, PartialEq, Eq, Hash)]
pub enum Strat {
    LeveledSmall { l0: u8, target: u64 },
    LeveledDefault,
    /// FIFO with limit = u64::MAX and no TTL: never evicts
    FifoNoEvict,
}

#[derive(Clone, Debug, Serialize, Deserialize, PartialEq, Eq, Hash)]
pub struct KsCfg {
    /// kv separation threshold (None = standard tree)
    pub blob: Option<u32>,
    pub memtable: u64,
    pub strategy: Strat,
    pub manual_persist: bool,
}

impl Default for KsCfg {
    fn default() -> Self {
        Self {
            blob: None,
            memtable: 64 * 1024 * 1024,
            strategy: Strat::LeveledDefault,
            manual_persist: false,
        }
    }
}

#[derive(Clone, Debug, Serialize, Deserialize, PartialEq, Eq, Hash)]
pub struct Cfg {
    pub flavor: Flavor,
    pub journal_lz4: bool,
    pub db_manual_persist: bool,
    /// journal position scale (1 = real; 64_000 => rotation after ~1 KB)
    pub pos_scale: u64,
    /// initial keyspaces, named NAMES[i]
    pub ks: Vec<KsCfg>,
    /// bit i set => compaction filter assigned to NAMES[i]
    pub filter_mask: u8,
}

pub const NAMES: [&str; 4] = ["a", "ab", "abc", "b"];

#[derive(Clone, Debug, Serialize, Deserialize, PartialEq, Eq, Hash)]
pub enum Sel {
    All,
    Range(Bd, Bd),
    Prefix(B),
}

/// Range bound
#[derive(Clone, Debug, Serialize, Deserialize, PartialEq, Eq, Hash)]
pub enum Bd {
    U,
    I(B),
    E(B),
}

#[derive(Clone, Debug, Serialize, Deserialize, PartialEq, Eq, Hash)]
pub enum Walk {
    Fwd,
    Rev,
    /// consume from both ends: true = next_back
    Ends(Vec<bool>),
}

/// A read through a `Readable` (snapshot / transaction) or directly on a keyspace
#[derive(Clone, Debug, Serialize, Deserialize, PartialEq, Eq, Hash)]
pub enum Read {
    Get(B),
    Contains(B),
    SizeOf(B),
    First,
    Last,
    Len,
    IsEmpty,
    Scan(Sel, Walk, u8),
}

/// Closure-as-data for fetch_update / update_fetch
#[derive(Clone, Debug, Serialize, Deserialize, PartialEq, Eq, Hash)]
pub enum F {
    Set(B),
    Delete,
    Append(u8),
    Toggle(B),
    Same,
}

#[derive(Clone, Debug, Serialize, Deserialize, PartialEq, Eq, Hash)]
pub enum TxW {
    Insert(B, B),
    Remove(B),
    Take(B),
    FetchUpdate(B, F),
    UpdateFetch(B, F),
}

#[derive(Clone, Copy, Debug, Serialize, Deserialize, PartialEq, Eq, Hash)]
pub enum ViewKind {
    Snapshot,
    ReadTx,
}

#[derive(Clone, Copy, Debug, Serialize, Deserialize, PartialEq, Eq, Hash)]
pub enum IterSrc {
    Keyspace,
    View(u16),
    Tx(u16),
}

#[derive(Clone, Debug, Serialize, Deserialize, PartialEq, Eq, Hash)]
pub enum Op {
    Insert { ks: u16, k: B, v: B },
    Remove { ks: u16, k: B },
    RemoveWeak { ks: u16, k: B },
    /// items: (ks, key, Some(value) | None = remove); dur: 0 default, 1 None, 2 Buffer, 3 SyncData, 4 SyncAll
    Batch { items: Vec<(u16, B, Option<B>)>, dur: u8 },
    Clear { ks: u16 },
    /// items are sorted + deduplicated by the interpreter (ingestion demands ascending keys)
    Ingest { ks: u16, items: Vec<(B, Option<B>)> },
    /// 0 Buffer, 1 SyncData, 2 SyncAll
    Persist { mode: u8 },
    Rotate { ks: u16 },
    Step { n: u8 },
    Drain,
    MajorCompact { ks: u16 },
    Read { ks: u16, r: Read },
    ViewOpen { kind: ViewKind },
    ViewClone { i: u16 },
    ViewClose { i: u16 },
    ViewRead { i: u16, ks: u16, r: Read },
    IterOpen { src: IterSrc, ks: u16, sel: Sel },
    IterStep { j: u16, back: bool, n: u8 },
    IterDrop { j: u16 },
    TxBegin,
    TxRead { t: u16, ks: u16, r: Read },
    TxWrite { t: u16, ks: u16, w: TxW },
    TxCommit { t: u16 },
    TxRollback { t: u16 },
    TxDrop { t: u16 },
    /// single-operation helper on a transactional keyspace
    Auto { ks: u16, w: TxW },
    CreateKs { name: u8, cfg: KsCfg },
    DeleteKs { ks: u16, keep_handle: bool },
    /// write through a stale (deleted) keyspace handle
    StaleWrite {
        i: u16,
        k: B,
        v: Option<B>,
        /// false: direct insert/remove (must be refused); true: as the only item of a write batch /
        /// write transaction (may be accepted or refused, must never reach a live keyspace)
        #[serde(default)]
        batch: bool,
    },
    StaleDrop { i: u16 },
    Reopen { alt: u8 },
    /// audit everything now
    Audit,
    /// rotate + flush every keyspace, then the number of journal files must be back to one
    SettleJournals,
}

#[derive(Clone, Debug, Serialize, Deserialize, PartialEq, Eq, Hash)]
pub struct Case {
    pub cfg: Cfg,
    pub ops: Vec<Op>,
}

pub fn case_hash(c: &impl std::hash::Hash) -> u64 {
    use std::hash::Hasher;
    // deterministic hasher (SipHash with fixed keys)
    #[allow(deprecated)]
    let mut h = std::hash::SipHasher::new_with_keys(0x5eed, 0xf1a11);
    c.hash(&mut h);
    h.finish()
}

/// monotone index mapping: i in 0..65536 onto 0..len
pub fn idx(i: u16, len: usize) -> Option<usize> {
    if len == 0 {
        None
    } else {
        Some((usize::from(i) * len) >> 16)
    }
}
