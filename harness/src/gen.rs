//! proptest strategies for cases. All randomness comes from proptest's RNG.

use crate::case::*;
use proptest::collection::vec;
use proptest::prelude::*;
use proptest::strategy::Union;

#[derive(Clone, Debug)]
pub struct Weights {
    pub write: u32,
    pub weak: u32,
    pub batch: u32,
    pub clear: u32,
    pub ingest: u32,
    pub persist: u32,
    pub rotate: u32,
    pub step: u32,
    pub major: u32,
    pub read: u32,
    pub view: u32,
    pub iter: u32,
    pub tx: u32,
    pub auto: u32,
    pub ks_admin: u32,
    pub reopen: u32,
    pub audit: u32,
}

impl Default for Weights {
    fn default() -> Self {
        Weights {
            write: 30,
            weak: 0,
            batch: 6,
            clear: 1,
            ingest: 2,
            persist: 1,
            rotate: 5,
            step: 8,
            major: 2,
            read: 20,
            view: 0,
            iter: 0,
            tx: 0,
            auto: 0,
            ks_admin: 0,
            reopen: 0,
            audit: 1,
        }
    }
}

#[derive(Clone, Debug)]
pub struct Profile {
    pub max_ops: usize,
    pub flavors: Vec<Flavor>,
    pub w: Weights,
    pub max_ks: usize,
    pub filters: bool,
    /// allow values >= 8 KiB and long keys
    pub big: bool,
    /// few keys (raises contention between transactions)
    pub hot_keys: bool,
    /// weights of (begin, read, write, commit, rollback, drop) inside the transaction op class
    pub tx_mix: [u32; 6],
    /// never generate manual journal persist (database or keyspace level)
    pub no_manual_persist: bool,
}

impl Default for Profile {
    fn default() -> Self {
        Profile {
            max_ops: 40,
            flavors: vec![Flavor::Plain],
            w: Weights::default(),
            max_ks: 3,
            filters: false,
            big: true,
            hot_keys: false,
            tx_mix: [3, 8, 8, 4, 1, 1],
            no_manual_persist: false,
        }
    }
}

pub fn key_s(p: &Profile) -> BoxedStrategy<B> {
    if p.hot_keys {
        return prop_oneof![
            6 => "[a-c]".prop_map(|s| B::L(s.into_bytes())),
            2 => "[a-b][a-b]".prop_map(|s| B::L(s.into_bytes())),
        ]
        .boxed();
    }
    let long = if p.big { 1 } else { 0 };
    let mut alts: Vec<(u32, BoxedStrategy<B>)> = vec![
        (10, "[a-c]{1,3}".prop_map(|s| B::L(s.into_bytes())).boxed()),
        (
            2,
            vec(prop_oneof![Just(0u8), Just(0xffu8), Just(b'a'), Just(b'b')], 1..4)
                .prop_map(B::L)
                .boxed(),
        ),
        (
            1,
            ("[a-b]{1,2}", any::<u8>())
                .prop_map(|(s, b)| {
                    let mut v = s.into_bytes();
                    v.push(b);
                    B::L(v)
                })
                .boxed(),
        ),
    ];
    if long > 0 {
        alts.push((
            1,
            (prop_oneof![Just(300u32), Just(4096), Just(65535), 100u32..2000], any::<u8>())
                .prop_map(|(len, seed)| B::R {
                    len,
                    seed,
                    rnd: false,
                })
                .boxed(),
        ));
    }
    Union::new_weighted(alts).boxed()
}

pub fn val_s(p: &Profile) -> BoxedStrategy<B> {
    if p.hot_keys && !p.big {
        // values of varying length so that size_of is informative
        return vec(any::<u8>(), 0..6).prop_map(B::L).boxed();
    }
    let mut alts: Vec<(u32, BoxedStrategy<B>)> = vec![
        (2, Just(B::L(vec![])).boxed()),
        (10, vec(any::<u8>(), 1..16).prop_map(B::L).boxed()),
        (
            3,
            (prop_oneof![Just(1u32), Just(6), Just(7), Just(8), Just(63), Just(64), Just(65)], any::<u8>(), any::<bool>())
                .prop_map(|(len, seed, rnd)| B::R { len, seed, rnd })
                .boxed(),
        ),
        (
            2,
            (
                prop_oneof![Just(1023u32), Just(1024), Just(1025), Just(4095), Just(4096), Just(4097)],
                any::<u8>(),
                any::<bool>(),
            )
                .prop_map(|(len, seed, rnd)| B::R { len, seed, rnd })
                .boxed(),
        ),
    ];
    if p.big {
        alts.push((
            1,
            (4096u32..9000, any::<u8>()).prop_map(|(len, seed)| B::Z { len, seed }).boxed(),
        ));
        alts.push((
            1,
            (8192u32..40_000, any::<u8>(), any::<bool>())
                .prop_map(|(len, seed, rnd)| B::R { len, seed, rnd })
                .boxed(),
        ));
    }
    Union::new_weighted(alts).boxed()
}

pub fn bd_s(p: &Profile) -> BoxedStrategy<Bd> {
    let k = key_s(&Profile {
        big: false,
        ..p.clone()
    });
    prop_oneof![
        2 => Just(Bd::U),
        3 => k.clone().prop_map(Bd::I),
        3 => k.prop_map(Bd::E),
    ]
    .boxed()
}

pub fn sel_s(p: &Profile) -> BoxedStrategy<Sel> {
    prop_oneof![
        3 => Just(Sel::All),
        4 => (bd_s(p), bd_s(p)).prop_map(|(a, b)| Sel::Range(a, b)),
        3 => prop_oneof![
            1 => Just(B::L(vec![])),
            6 => "[a-c]{1,2}".prop_map(|s| B::L(s.into_bytes())),
            1 => Just(B::L(vec![0xff])),
            1 => Just(B::L(vec![0xff, 0xff])),
            // prefixes whose last byte cannot be incremented / is the smallest, with keys on both sides
            2 => ("[a-b]{1,2}", prop_oneof![Just(0xffu8), Just(0u8)]).prop_map(|(s, b)| {
                let mut v = s.into_bytes();
                v.push(b);
                B::L(v)
            }),
            // any key of the profile's key space (and so every proper prefix relation among keys)
            2 => key_s(p),
        ].prop_map(Sel::Prefix),
    ]
    .boxed()
}

pub fn walk_s() -> BoxedStrategy<Walk> {
    prop_oneof![
        3 => Just(Walk::Fwd),
        2 => Just(Walk::Rev),
        2 => vec(any::<bool>(), 1..5).prop_map(Walk::Ends),
    ]
    .boxed()
}

pub fn read_s(p: &Profile) -> BoxedStrategy<Read> {
    let k = key_s(p);
    prop_oneof![
        5 => k.clone().prop_map(Read::Get),
        2 => k.clone().prop_map(Read::Contains),
        2 => k.prop_map(Read::SizeOf),
        1 => Just(Read::First),
        1 => Just(Read::Last),
        1 => Just(Read::Len),
        1 => Just(Read::IsEmpty),
        6 => (sel_s(p), walk_s(), 0u8..5).prop_map(|(s, w, a)| Read::Scan(s, w, a)),
    ]
    .boxed()
}

pub fn f_s(p: &Profile) -> BoxedStrategy<F> {
    prop_oneof![
        3 => val_s(p).prop_map(F::Set),
        1 => Just(F::Delete),
        3 => any::<u8>().prop_map(F::Append),
        2 => val_s(p).prop_map(F::Toggle),
        1 => Just(F::Same),
    ]
    .boxed()
}

pub fn txw_s(p: &Profile) -> BoxedStrategy<TxW> {
    let k = key_s(p);
    prop_oneof![
        5 => (k.clone(), val_s(p)).prop_map(|(k, v)| TxW::Insert(k, v)),
        3 => k.clone().prop_map(TxW::Remove),
        1 => k.clone().prop_map(TxW::Take),
        2 => (k.clone(), f_s(p)).prop_map(|(k, f)| TxW::FetchUpdate(k, f)),
        2 => (k, f_s(p)).prop_map(|(k, f)| TxW::UpdateFetch(k, f)),
    ]
    .boxed()
}

pub fn kscfg_s() -> BoxedStrategy<KsCfg> {
    (
        prop_oneof![4 => Just(None), 1 => Just(Some(1u32)), 1 => Just(Some(64)), 1 => Just(Some(1024))],
        prop_oneof![2 => Just(256u64), 2 => Just(1024), 1 => Just(4096), 2 => Just(64 * 1024 * 1024)],
        prop_oneof![
            3 => (2u8..=4, prop_oneof![Just(2048u64), Just(65536)]).prop_map(|(l0, target)| Strat::LeveledSmall { l0, target }),
            2 => Just(Strat::LeveledDefault),
            1 => Just(Strat::FifoNoEvict),
        ],
        prop::bool::weighted(0.15),
    )
        .prop_map(|(blob, memtable, strategy, manual_persist)| KsCfg {
            blob,
            memtable,
            strategy,
            manual_persist,
        })
        .boxed()
}

pub fn cfg_s(p: &Profile) -> BoxedStrategy<Cfg> {
    let flavors = p.flavors.clone();
    let filters = p.filters;
    let nomp = p.no_manual_persist;
    (
        (0..flavors.len()).prop_map(move |i| flavors[i]),
        any::<bool>(),
        prop::bool::weighted(0.15),
        prop_oneof![1 => Just(1u64), 1 => Just(64_000u64)],
        vec(kscfg_s(), 1..=p.max_ks),
        any::<u8>(),
    )
        .prop_map(move |(flavor, journal_lz4, db_manual_persist, pos_scale, mut ks, fm)| {
            if nomp {
                for k in &mut ks {
                    k.manual_persist = false;
                }
            }
            Cfg {
                flavor,
                journal_lz4,
                db_manual_persist: db_manual_persist && !nomp,
                pos_scale,
                ks,
                filter_mask: if filters { (fm & 0x0f) | 1 } else { 0 },
            }
        })
        .boxed()
}

pub fn op_s(p: &Profile) -> BoxedStrategy<Op> {
    let w = &p.w;
    let ks = || any::<u16>();
    let k = key_s(p);
    let v = val_s(p);
    let nomp0 = p.no_manual_persist;
    let mut alts: Vec<(u32, BoxedStrategy<Op>)> = vec![];
    let mut add = |wt: u32, s: BoxedStrategy<Op>| {
        if wt > 0 {
            alts.push((wt, s));
        }
    };
    add(
        w.write,
        prop_oneof![
            3 => (ks(), k.clone(), v.clone()).prop_map(|(ks, k, v)| Op::Insert { ks, k, v }),
            1 => (ks(), k.clone()).prop_map(|(ks, k)| Op::Remove { ks, k }),
        ]
        .boxed(),
    );
    add(w.weak, (ks(), k.clone()).prop_map(|(ks, k)| Op::RemoveWeak { ks, k }).boxed());
    add(
        w.batch,
        (
            // mostly small; one batch in ten is large (several writes of the same key in one batch,
            // item counts beyond any small-sort / inline-capacity threshold)
            prop_oneof![
                9 => vec((ks(), k.clone(), prop::option::weighted(0.75, v.clone())), 1..8),
                1 => vec((ks(), k.clone(), prop::option::weighted(0.75, v.clone())), 24..96),
            ],
            0u8..5,
        )
            .prop_map(move |(items, dur)| Op::Batch {
                items,
                // durability(None) is a manual-persist choice of the caller
                dur: if nomp0 && dur == 1 { 0 } else { dur },
            })
            .boxed(),
    );
    add(w.clear, ks().prop_map(|ks| Op::Clear { ks }).boxed());
    add(
        w.ingest,
        (ks(), vec((k.clone(), prop::option::weighted(0.8, v.clone())), 0..8))
            .prop_map(|(ks, items)| Op::Ingest { ks, items })
            .boxed(),
    );
    add(w.persist, (0u8..3).prop_map(|mode| Op::Persist { mode }).boxed());
    add(w.rotate, ks().prop_map(|ks| Op::Rotate { ks }).boxed());
    add(
        w.step,
        prop_oneof![
            3 => (1u8..4).prop_map(|n| Op::Step { n }),
            1 => Just(Op::Drain),
        ]
        .boxed(),
    );
    add(w.major, ks().prop_map(|ks| Op::MajorCompact { ks }).boxed());
    add(w.read, (ks(), read_s(p)).prop_map(|(ks, r)| Op::Read { ks, r }).boxed());
    add(
        w.view,
        prop_oneof![
            3 => prop_oneof![Just(ViewKind::Snapshot), Just(ViewKind::ReadTx)].prop_map(|kind| Op::ViewOpen { kind }),
            1 => any::<u16>().prop_map(|i| Op::ViewClone { i }),
            2 => any::<u16>().prop_map(|i| Op::ViewClose { i }),
            8 => (any::<u16>(), ks(), read_s(p)).prop_map(|(i, ks, r)| Op::ViewRead { i, ks, r }),
        ]
        .boxed(),
    );
    let nomp = p.no_manual_persist;
    let has_tx = w.tx > 0;
    let has_view = w.view > 0;
    add(
        w.iter,
        prop_oneof![
            3 => (
                {
                    let mut a: Vec<(u32, BoxedStrategy<IterSrc>)> = vec![(4, Just(IterSrc::Keyspace).boxed())];
                    if has_view {
                        a.push((2, any::<u16>().prop_map(IterSrc::View).boxed()));
                    }
                    if has_tx {
                        a.push((2, any::<u16>().prop_map(IterSrc::Tx).boxed()));
                    }
                    Union::new_weighted(a)
                },
                ks(),
                sel_s(p)
            )
                .prop_map(|(src, ks, sel)| Op::IterOpen { src, ks, sel }),
            8 => (any::<u16>(), any::<bool>(), 1u8..4).prop_map(|(j, back, n)| Op::IterStep { j, back, n }),
            1 => any::<u16>().prop_map(|j| Op::IterDrop { j }),
        ]
        .boxed(),
    );
    add(
        w.tx,
        Union::new_weighted(vec![
            (p.tx_mix[0].max(1), Just(Op::TxBegin).boxed()),
            (p.tx_mix[1].max(1), (any::<u16>(), ks(), read_s(p)).prop_map(|(t, ks, r)| Op::TxRead { t, ks, r }).boxed()),
            (p.tx_mix[2].max(1), (any::<u16>(), ks(), txw_s(p)).prop_map(|(t, ks, w)| Op::TxWrite { t, ks, w }).boxed()),
            (p.tx_mix[3].max(1), any::<u16>().prop_map(|t| Op::TxCommit { t }).boxed()),
            (p.tx_mix[4].max(1), any::<u16>().prop_map(|t| Op::TxRollback { t }).boxed()),
            (p.tx_mix[5].max(1), any::<u16>().prop_map(|t| Op::TxDrop { t }).boxed()),
        ])
        .boxed(),
    );
    add(w.auto, (ks(), txw_s(p)).prop_map(|(ks, w)| Op::Auto { ks, w }).boxed());
    add(
        w.ks_admin,
        prop_oneof![
            4 => (0u8..4, kscfg_s()).prop_map(move |(name, mut cfg)| {
                if nomp {
                    cfg.manual_persist = false;
                }
                Op::CreateKs { name, cfg }
            }),
            4 => (ks(), any::<bool>()).prop_map(|(ks, keep_handle)| Op::DeleteKs { ks, keep_handle }),
            3 => (any::<u16>(), k.clone(), prop::option::of(v.clone()), any::<bool>()).prop_map(|(i, k, v, batch)| Op::StaleWrite { i, k, v, batch }),
            1 => any::<u16>().prop_map(|i| Op::StaleDrop { i }),
        ]
        .boxed(),
    );
    add(w.reopen, any::<u8>().prop_map(|alt| Op::Reopen { alt }).boxed());
    add(w.audit, Just(Op::Audit).boxed());
    Union::new_weighted(alts).boxed()
}

/// Short operation idioms whose parts must refer to each other (same transaction, same keyspace,
/// the iterator just opened, the handle just made stale). Generated as one chunk and flattened into
/// the program, so the parts shrink like any other operation.
fn idiom_s(p: &Profile) -> Option<BoxedStrategy<Vec<Op>>> {
    let w = &p.w;
    let mut alts: Vec<(u32, BoxedStrategy<Vec<Op>>)> = vec![];
    let ks = || any::<u16>();
    if w.tx > 0 && w.iter > 0 {
        // iterator over a write transaction's view, then the same transaction writes into the same
        // keyspace, then the iterator is advanced
        alts.push((
            2,
            (
                (any::<bool>(), ks(), sel_s(p), txw_s(p)),
                (prop::option::of((any::<bool>(), 1u8..3)), txw_s(p), prop::option::of(txw_s(p)), any::<bool>(), 1u8..5),
            )
                .prop_map(|((begin, ks, sel, w0), (pre, w1, w2, back, n))| {
                    let t = 65535u16;
                    let mut v = vec![];
                    if begin {
                        v.push(Op::TxBegin);
                    }
                    v.push(Op::TxWrite { t, ks, w: w0 });
                    v.push(Op::IterOpen { src: IterSrc::Tx(t), ks, sel });
                    if let Some((back, n)) = pre {
                        v.push(Op::IterStep { j: 65535, back, n });
                    }
                    v.push(Op::TxWrite { t, ks, w: w1 });
                    if let Some(w2) = w2 {
                        v.push(Op::TxWrite { t, ks, w: w2 });
                    }
                    v.push(Op::IterStep { j: 65535, back, n });
                    v.push(Op::IterStep { j: 65535, back: !back, n: 4 });
                    v
                })
                .boxed(),
        ));
    }
    if w.ks_admin > 0 {
        // keyspace deleted while a handle stays, a keyspace created (same name in a quarter of the
        // cases), a batch / transaction through the stale handle, then a look at the live keyspaces
        let nomp = p.no_manual_persist;
        alts.push((
            1,
            (ks(), 0u8..4, kscfg_s(), key_s(p), prop::option::weighted(0.8, val_s(p)), any::<bool>(), any::<bool>())
                .prop_map(move |(ks, name, mut cfg, k, v, batch, reopen)| {
                    if nomp {
                        cfg.manual_persist = false;
                    }
                    let mut ops = vec![
                        Op::DeleteKs { ks, keep_handle: true },
                        Op::CreateKs { name, cfg },
                        Op::StaleWrite { i: 65535, k, v, batch },
                        Op::Audit,
                    ];
                    if reopen {
                        ops.push(Op::Reopen { alt: 0 });
                    }
                    ops
                })
                .boxed(),
        ));
    }
    if alts.is_empty() {
        None
    } else {
        Some(Union::new_weighted(alts).boxed())
    }
}

pub fn case_s(p: &Profile) -> BoxedStrategy<Case> {
    let single = op_s(p).prop_map(|o| vec![o]).boxed();
    let chunk = match idiom_s(p) {
        Some(i) => prop_oneof![24 => single, 1 => i].boxed(),
        None => single,
    };
    let max = p.max_ops;
    (cfg_s(p), vec(chunk, 0..=p.max_ops))
        .prop_map(move |(cfg, chunks)| {
            let mut ops: Vec<Op> = chunks.into_iter().flatten().collect();
            ops.truncate(max + 8);
            Case { cfg, ops }
        })
        .boxed()
}
