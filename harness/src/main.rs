mod case;
mod c15;
mod c16;
mod c17;
mod driver;
mod e2;
mod e2drv;
mod e2torn;
mod e3;
mod e2power;
mod e2evict;
mod e2fault;
mod gen;
mod interp;
mod model;
mod ops;
mod props;
mod real;
mod scenario;
mod ser;

use std::collections::BTreeSet;

fn arg(args: &[String], name: &str) -> Option<String> {
    args.iter().position(|a| a == name).and_then(|i| args.get(i + 1).cloned())
}

fn main() {
    let args: Vec<String> = std::env::args().collect();
    if args.len() < 3 {
        eprintln!("usage: fjv check <ID> [--tier quick|thorough] [--seed N] | fjv replay <ID> <file> | fjv shard ...");
        std::process::exit(2);
    }
    let cmd = args[1].as_str();
    let id = args[2].clone();
    let seed: u64 = arg(&args, "--seed")
        .or_else(|| std::env::var("VERIF_SEED").ok())
        .and_then(|s| s.parse().ok())
        .unwrap_or(1);
    let tier = arg(&args, "--tier")
        .or_else(|| std::env::var("VERIF_TIER").ok())
        .unwrap_or_else(|| "quick".into());
    let tier = if tier == "thorough" { "thorough" } else { "quick" };
    match cmd {
        "crashee" => {
            let case = arg(&args, "--case").expect("--case");
            let root = arg(&args, "--root").expect("--root");
            let marker = arg(&args, "--marker").expect("--marker");
            let states = arg(&args, "--states");
            std::process::exit(e2::crashee_main(&case, &root, &marker, states.as_deref()));
        }
        "ztest" => {
            let mut hit = 0;
            for (i, len) in [4096u32, 4500, 5000, 6054, 7000, 8191, 8999].iter().enumerate() {
                let v = case::B::Z { len: *len, seed: i as u8 }.mat();
                let c = lz4_flex::compress(&v).len();
                println!("len {} compressed {}", v.len(), c);
                if c == v.len() {
                    hit += 1;
                }
            }
            println!("{hit} exact");
            return;
        }
        "mtcrashee" => {
            let root = arg(&args, "--root").expect("--root");
            let out = arg(&args, "--out").expect("--out");
            let threads: usize = arg(&args, "--threads").and_then(|s| s.parse().ok()).unwrap_or(2);
            let ops: usize = arg(&args, "--ops").and_then(|s| s.parse().ok()).unwrap_or(10);
            let flavor: u8 = arg(&args, "--flavor").and_then(|s| s.parse().ok()).unwrap_or(0);
            std::process::exit(e2fault::mt_crashee(&root, &out, threads, ops, flavor));
        }
        "check" => {
            if let Some(def) = props::e1(&id) {
                std::process::exit(driver::check_e1(&def, tier, seed));
            }
            if let Some(def) = e2drv::e2(&id) {
                std::process::exit(e2drv::check_e2(&def, tier, seed));
            }
            if id == "C15" {
                std::process::exit(c15::check_c15(tier, seed));
            }
            if id == "C16" {
                std::process::exit(c16::check_c16(tier, seed));
            }
            if id == "C17" {
                std::process::exit(c17::check_c17(tier, seed));
            }
            if id == "C14" {
                std::process::exit(driver::check_simple("C14", tier, seed, 8000, 200_000, "exploration", e3::C14_RULE,
                    &["thread schedules are sampled, not enumerated", "the liveness clause (stall mechanisms always let writers proceed eventually) cannot be decided by testing: a history that takes longer than 60 s makes the run inconclusive (exit 2), never a violation", "scans are not part of this check (C05/C06)"],
                    e3::replay_c14, "histories"));
            }
            if id == "C06" {
                std::process::exit(driver::check_simple("C06", tier, seed, 9600, 200_000, "exploration", e3::C06_RULE,
                    &["owned schedules cover the windows named by the pause points; sampled schedules are samples of real thread interleavings", "intruders that need the journal lock or the keyspace-map write lock (clear, rotation, ingestion finish, keyspace create/delete) cannot run inside the window by construction"],
                    e3::replay_c06, "cases+histories"));
            }
            eprintln!("unknown property {id}");
            std::process::exit(2);
        }
        "shard" => {
            // the shard's private scratch directory (/dev/shm/fjv-<pid>) goes away with the shard
            struct Clean;
            impl Drop for Clean {
                fn drop(&mut self) {
                    let _ = std::fs::remove_dir_all(driver::scratch_root());
                }
            }
            let _clean = Clean;
            let shard: u32 = arg(&args, "--shard").and_then(|s| s.parse().ok()).unwrap_or(0);
            let cases: u32 = arg(&args, "--cases").and_then(|s| s.parse().ok()).unwrap_or(10);
            let out = arg(&args, "--out").expect("--out");
            let exclude: BTreeSet<String> = arg(&args, "--exclude")
                .unwrap_or_default()
                .split(',')
                .filter(|s| !s.is_empty())
                .map(str::to_string)
                .collect();
            if let Some(def) = props::e1(&id) {
                let o = driver::shard_e1(&def, tier, seed, shard, cases, &exclude);
                std::fs::write(out, serde_json::to_string(&o).unwrap()).unwrap();
                return;
            }
            if let Some(def) = e2drv::e2(&id) {
                let o = e2drv::shard_e2(&def, tier, seed, shard, cases);
                std::fs::write(out, serde_json::to_string(&o).unwrap()).unwrap();
                return;
            }
            if id == "C15" {
                let o = c15::shard_c15(tier, seed, shard, cases, &exclude);
                std::fs::write(out, serde_json::to_string(&o).unwrap()).unwrap();
                return;
            }
            if id == "C16" {
                let o = c16::shard_c16(seed, shard, cases);
                std::fs::write(out, serde_json::to_string(&o).unwrap()).unwrap();
                return;
            }
            if id == "C17" {
                let o = c17::shard_c17(seed, shard, cases);
                std::fs::write(out, serde_json::to_string(&o).unwrap()).unwrap();
                return;
            }
            if id == "C14" {
                let o = e3::shard_c14(tier, seed, shard, cases);
                std::fs::write(out, serde_json::to_string(&o).unwrap()).unwrap();
                return;
            }
            if id == "C06" {
                let o = e3::shard_c06(tier, seed, shard, cases, &exclude);
                std::fs::write(out, serde_json::to_string(&o).unwrap()).unwrap();
                return;
            }
            std::process::exit(2);
        }
        "replay" => {
            let file = args.get(3).expect("file");
            if id == "C14" {
                let s = std::fs::read_to_string(file).expect("readable replay file");
                let v: serde_json::Value = serde_json::from_str(&s).expect("json");
                match e3::replay_c14(&v, &BTreeSet::new()) {
                    Some(msg) => {
                        println!("replay fails: {msg}");
                        println!("VIOLATION property={id} replay={file}");
                        std::process::exit(1);
                    }
                    None => {
                        println!("replay passes");
                        std::process::exit(0);
                    }
                }
            }
            if id == "C06" {
                let s = std::fs::read_to_string(file).expect("readable replay file");
                let v: serde_json::Value = serde_json::from_str(&s).expect("json");
                match e3::replay_c06(&v, &BTreeSet::new()) {
                    Some(msg) => {
                        println!("replay fails: {msg}");
                        println!("VIOLATION property={id} replay={file}");
                        std::process::exit(1);
                    }
                    None => {
                        println!("replay passes");
                        std::process::exit(0);
                    }
                }
            }
            if id == "C17" {
                let s = std::fs::read_to_string(file).expect("readable replay file");
                let v: serde_json::Value = serde_json::from_str(&s).expect("json");
                match c17::replay_c17(&v) {
                    Some(msg) => {
                        println!("replay fails: {msg}");
                        println!("VIOLATION property={id} replay={file}");
                        std::process::exit(1);
                    }
                    None => {
                        println!("replay passes");
                        std::process::exit(0);
                    }
                }
            }
            if id == "C16" {
                let s = std::fs::read_to_string(file).expect("readable replay file");
                let v: serde_json::Value = serde_json::from_str(&s).expect("json");
                match c16::replay_c16(&v) {
                    Some(msg) => {
                        println!("replay fails: {msg}");
                        println!("VIOLATION property={id} replay={file}");
                        std::process::exit(1);
                    }
                    None => {
                        println!("replay passes");
                        std::process::exit(0);
                    }
                }
            }
            if id == "C15" && std::fs::read(file).ok().and_then(|b| serde_json::from_slice::<serde_json::Value>(&b).ok()).is_none() {
                // a saved libFuzzer input of the journal_damage target
                let st = std::process::Command::new("cargo")
                    .current_dir("/verif/harness")
                    .env("CARGO_NET_OFFLINE", "true")
                    .args(["+nightly", "fuzz", "run", "--fuzz-dir", "/verif/fuzz", "-O", "-s", "none", "--target-dir", "/verif/fuzz/target", "journal_damage", file.as_str(), "--", "-runs=1"])
                    .status();
                match st {
                    Ok(s) if s.success() => {
                        println!("replay passes");
                        std::process::exit(0);
                    }
                    Ok(_) => {
                        println!("VIOLATION property={id} replay={file}");
                        std::process::exit(1);
                    }
                    Err(e) => {
                        eprintln!("cannot run the fuzz target: {e}");
                        std::process::exit(2);
                    }
                }
            }
            if id == "C15" {
                let s = std::fs::read_to_string(file).expect("readable replay file");
                let v: serde_json::Value = serde_json::from_str(&s).expect("json");
                match c15::replay_c15(&v) {
                    Some(msg) => {
                        println!("replay fails: {msg}");
                        println!("VIOLATION property={id} replay={file}");
                        std::process::exit(1);
                    }
                    None => {
                        println!("replay passes");
                        std::process::exit(0);
                    }
                }
            }
            if let Some(def) = e2drv::e2(&id) {
                let s = std::fs::read_to_string(file).expect("readable replay file");
                let raw: serde_json::Value = serde_json::from_str(&s).expect("json");
                if raw.get("kind").and_then(|k| k.as_str()) == Some("multi-writer") {
                    // schedule-dependent: retried a few times
                    let sb = e2::Sandbox::new(&driver::scratch_root().join("mtreplay"));
                    let g = |k: &str| raw.get(k).and_then(|x| x.as_u64()).unwrap_or(2);
                    let fault = raw.get("fault").and_then(|x| x.as_str()).unwrap_or("5:eio_write:0").to_string();
                    for _ in 0..10 {
                        if let Err(e) = e2fault::mt_fault_check(&sb, g("threads") as usize, g("ops") as usize, g("flavor") as u8, &fault) {
                            if !e.starts_with("INCONCLUSIVE") {
                                println!("replay fails: {e}");
                                println!("VIOLATION property={id} replay={file}");
                                std::process::exit(1);
                            }
                        }
                    }
                    println!("replay passes (10 attempts; schedule-dependent)");
                    std::process::exit(0);
                }
                if let Some(tp) = raw.get("threaded_reopen") {
                    // schedule-dependent: retried a few times
                    let rp: e3::ReopenParams = serde_json::from_value(tp.clone()).expect("threaded_reopen parameters");
                    let dir = driver::scratch_root().join("c03-thr-replay");
                    for _ in 0..20 {
                        if let Err(e) = e3::threaded_c03(&dir, &rp) {
                            if !e.starts_with("INCONCLUSIVE") {
                                println!("replay fails: {e}");
                                println!("VIOLATION property={id} replay={file}");
                                std::process::exit(1);
                            }
                        }
                    }
                    println!("replay passes (20 attempts; schedule-dependent)");
                    std::process::exit(0);
                }
                let rp: e2drv::E2Replay = serde_json::from_str(&s).expect("E2 replay file");
                match e2drv::replay_e2(&def, &rp) {
                    Some(msg) => {
                        println!("replay fails: {msg}");
                        println!("VIOLATION property={id} replay={file}");
                        std::process::exit(1);
                    }
                    None => {
                        println!("replay passes");
                        std::process::exit(0);
                    }
                }
            }
            let v = driver::load_case_file(std::path::Path::new(file)).expect("readable replay file");
            if let Some(h) = v.get("threaded_history") {
                // recorded multi-threaded transaction history: the checker re-decides it
                let recs: Vec<interp::TxRec> = serde_json::from_value(h.get("recs").cloned().unwrap_or_default()).expect("history");
                let flat: Vec<(Vec<u8>, Vec<u8>)> = serde_json::from_value(h.get("final_a").cloned().unwrap_or_default()).expect("final state");
                let mut base = model::State::new();
                base.insert("a".into(), model::Map::new());
                let mut fin = model::State::new();
                fin.insert("a".into(), flat.into_iter().collect());
                match ser::check_ser(&base, &recs, &fin, 2_000_000) {
                    ser::SerResult::Fail(msg) => {
                        println!("replay fails: {msg}");
                        println!("VIOLATION property={id} replay={file}");
                        std::process::exit(1);
                    }
                    _ => {
                        println!("replay passes");
                        std::process::exit(0);
                    }
                }
            }
            if let Some(sd) = v.get("threaded_counters_seed").and_then(|x| x.as_u64()) {
                let dir = driver::scratch_root().join("t");
                std::fs::create_dir_all(&dir).ok();
                match e3::threaded_c08(&dir.join("db"), sd) {
                    Err(msg) => {
                        println!("replay fails: {msg}");
                        println!("VIOLATION property={id} replay={file}");
                        std::process::exit(1);
                    }
                    Ok(_) => {
                        println!("replay passes (schedule-dependent)");
                        std::process::exit(0);
                    }
                }
            }
            if let Some(def) = props::e1(&id) {
                let case: case::Case = serde_json::from_value(v).expect("case");
                let findings = driver::load_findings();
                let _ = findings;
                match driver::replay_e1(&def, &case, &BTreeSet::new()) {
                    Some((step, msg)) => {
                        println!("replay fails at step {step}: {msg}");
                        println!("VIOLATION property={id} replay={file}");
                        std::process::exit(1);
                    }
                    None => {
                        println!("replay passes");
                        std::process::exit(0);
                    }
                }
            }
            std::process::exit(2);
        }
        _ => {
            eprintln!("unknown command {cmd}");
            std::process::exit(2);
        }
    }
}
