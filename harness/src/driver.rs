//! Driver: sharding over child processes, proptest runner per shard, evidence, replays,
//! corpus and known findings.

use crate::case::{case_hash, Case};
use crate::gen::{case_s, Profile};
use crate::interp::{Opts, Stats};
use crate::ops::run_case;
use proptest::test_runner::{Config, RngAlgorithm, TestCaseError, TestError, TestRng, TestRunner};
use serde::{Deserialize, Serialize};
use serde_json::{json, Value};
use std::collections::{BTreeMap, BTreeSet};
use std::path::{Path, PathBuf};
use std::time::{Duration, Instant};

pub const VERIF: &str = "/verif";

/// where evidence and replay files go (FJV_OUT_DIR redirects them, used when a seeded change is
/// evaluated against a scratch copy so that /verif/evidence keeps describing /repo)
pub fn out_root() -> PathBuf {
    std::env::var("FJV_OUT_DIR").map_or_else(|_| PathBuf::from(VERIF), PathBuf::from)
}

#[derive(Clone)]
pub struct E1Def {
    pub id: &'static str,
    pub profile: Profile,
    pub thorough_profile: Option<Profile>,
    pub opts: Opts,
    pub nt: fn(&Stats) -> bool,
    pub rule: &'static str,
    pub quick_cases: u32,
    pub thorough_cases: u32,
    pub assumptions: Vec<&'static str>,
}

#[derive(Serialize, Deserialize, Clone, Debug, Default)]
pub struct FailureOut {
    pub case: Value,
    pub msg: String,
    pub step: usize,
    #[serde(default)]
    pub original_msg: String,
}

#[derive(Serialize, Deserialize, Clone, Debug, Default)]
pub struct ShardOut {
    pub evaluations: u64,
    pub nt_hashes: Vec<u64>,
    pub stats: BTreeMap<String, u64>,
    pub samples: Vec<Value>,
    pub failure: Option<FailureOut>,
    #[serde(default)]
    pub extra: BTreeMap<String, Value>,
    #[serde(default)]
    pub inconclusive: Option<String>,
}

pub fn scratch_root() -> PathBuf {
    let base = if Path::new("/dev/shm").is_dir() {
        PathBuf::from("/dev/shm")
    } else {
        std::env::temp_dir()
    };
    base.join(format!("fjv-{}", std::process::id()))
}

/// progress marker of a shard process (read by the parent when the shard exceeds the watchdog)
pub fn phase(msg: &str) {
    if let Ok(p) = std::env::var("FJV_PHASE_FILE") {
        let _ = std::fs::write(p, msg);
    }
}

pub fn seed_bytes(seed: u64, shard: u32, id: &str) -> [u8; 32] {
    let mut x = seed ^ 0x9E37_79B9_7F4A_7C15u64.wrapping_mul(u64::from(shard) + 1) ^ case_hash(&id);
    let mut out = [0u8; 32];
    for chunk in out.chunks_mut(8) {
        x = x.wrapping_add(0x9E37_79B9_7F4A_7C15);
        let mut z = x;
        z = (z ^ (z >> 30)).wrapping_mul(0xBF58_476D_1CE4_E5B9);
        z = (z ^ (z >> 27)).wrapping_mul(0x94D0_49BB_1331_11EB);
        z ^= z >> 31;
        chunk.copy_from_slice(&z.to_le_bytes());
    }
    out
}

pub fn runner(cases: u32, seed: [u8; 32]) -> TestRunner {
    let cfg = Config {
        cases,
        failure_persistence: None,
        max_shrink_iters: 4000,
        max_shrink_time: 120_000,
        ..Config::default()
    };
    TestRunner::new_with_rng(cfg, TestRng::from_seed(RngAlgorithm::ChaCha, &seed))
}

pub fn silence_panics() {
    std::panic::set_hook(Box::new(|_| {}));
}

/// One E1 shard: `cases` generated cases, stops at the first failure and shrinks it.
pub fn shard_e1(def: &E1Def, tier: &str, seed: u64, shard: u32, cases: u32, exclude: &BTreeSet<String>) -> ShardOut {
    silence_panics();
    let mut opts = def.opts.clone();
    opts.exclude = exclude.clone();
    let profile = if tier == "thorough" {
        def.thorough_profile.clone().unwrap_or_else(|| def.profile.clone())
    } else {
        def.profile.clone()
    };
    let strat = case_s(&profile);
    let mut r = runner(cases, seed_bytes(seed, shard, def.id));
    let root = scratch_root();
    std::fs::create_dir_all(&root).ok();
    let dir = root.join(format!("s{shard}"));
    let out = std::cell::RefCell::new(ShardOut::default());
    let failed = std::cell::Cell::new(false);
    let first_msg = std::cell::RefCell::new(String::new());
    let nt = def.nt;
    let res = r.run(&strat, |case| {
        phase(&format!("{} E1 case {}", def.id, serde_json::to_string(&case).unwrap_or_default()));
        let ro = run_case(&dir, &case, &opts);
        if !failed.get() {
            let mut o = out.borrow_mut();
            o.evaluations += 1;
            for (k, v) in &ro.stats.c {
                *o.stats.entry((*k).to_string()).or_insert(0) += v;
            }
            for (k, v) in &ro.stats.c {
                if *v > 0 {
                    *o.stats.entry(format!("cases_with_{k}")).or_insert(0) += 1;
                }
            }
            if nt(&ro.stats) {
                o.nt_hashes.push(case_hash(&case));
                if o.samples.len() < 2 {
                    o.samples.push(serde_json::to_value(&case).unwrap());
                }
            }
        }
        match ro.failure {
            None => Ok(()),
            Some(f) => {
                if !failed.get() {
                    failed.set(true);
                    *first_msg.borrow_mut() = f.msg.clone();
                }
                Err(TestCaseError::fail(format!("step {}: {}", f.step, f.msg)))
            }
        }
    });
    let mut o = out.into_inner();
    match res {
        Ok(()) => {}
        Err(TestError::Fail(reason, minimal)) => {
            // re-run the minimal case to get a clean message
            let ro = run_case(&dir, &minimal, &opts);
            let (msg, step) = match ro.failure {
                Some(f) => (f.msg, f.step),
                None => (format!("(minimal case did not fail on re-run) {reason}"), 0),
            };
            o.failure = Some(FailureOut {
                case: serde_json::to_value(&minimal).unwrap(),
                msg,
                step,
                original_msg: first_msg.into_inner(),
            });
        }
        Err(TestError::Abort(reason)) => {
            o.inconclusive = Some(format!("proptest aborted: {reason}"));
        }
    }
    // threaded supplements (sampled schedules) for the transactional properties
    if o.failure.is_none() && (def.id == "C07" || def.id == "C08") {
        let n = if tier == "thorough" { cases / 40 + 10 } else { cases / 120 + 4 };
        let tdir = root.join(format!("t{shard}"));
        std::fs::create_dir_all(&root).ok();
        for i in 0..n {
            let s = seed ^ (u64::from(shard) << 20) ^ (u64::from(i) * 7919 + 13);
            *o.stats.entry("threaded_histories".into()).or_insert(0) += 1;
            phase(&format!("{} threaded history {i} seed {s}", def.id));
            if def.id == "C07" {
                match crate::e3::threaded_c07(&tdir, s) {
                    Ok((nt, h)) => {
                        o.evaluations += 1;
                        if nt {
                            o.nt_hashes.push(case_hash(&h.to_string()));
                        }
                    }
                    Err((msg, h)) => {
                        o.failure = Some(FailureOut { case: serde_json::json!({"threaded_history": h}), msg, step: 0, original_msg: String::new() });
                        break;
                    }
                }
            } else {
                match crate::e3::threaded_c08(&tdir, s) {
                    Ok(_) => {
                        o.evaluations += 1;
                    }
                    Err(msg) => {
                        o.failure = Some(FailureOut { case: serde_json::json!({"threaded_counters_seed": s}), msg, step: 0, original_msg: String::new() });
                        break;
                    }
                }
            }
        }
    }
    let _ = std::fs::remove_dir_all(&root);
    o
}

pub fn replay_e1(def: &E1Def, case: &Case, exclude: &BTreeSet<String>) -> Option<(usize, String)> {
    silence_panics();
    let mut opts = def.opts.clone();
    opts.exclude = exclude.clone();
    let root = scratch_root();
    std::fs::create_dir_all(&root).ok();
    let dir = root.join("replay");
    let ro = run_case(&dir, case, &opts);
    let _ = std::fs::remove_dir_all(&root);
    ro.failure.map(|f| (f.step, f.msg))
}

// ------------------------------------------------------------------ known findings

#[derive(Serialize, Deserialize, Clone, Debug)]
pub struct Finding {
    pub property: String,
    pub id: String,
    /// "known" | "fixed"
    pub status: String,
    #[serde(default)]
    pub commit: Option<String>,
    pub what: String,
    #[serde(default)]
    pub replay: Option<String>,
    /// names of exclusion predicates the generators apply (only for status = known)
    #[serde(default)]
    pub exclude: Vec<String>,
}

pub fn load_findings() -> Vec<Finding> {
    let p = Path::new(VERIF).join("known_findings.json");
    match std::fs::read_to_string(&p) {
        Ok(s) => serde_json::from_str(&s).unwrap_or_else(|e| {
            eprintln!("known_findings.json unreadable: {e}");
            vec![]
        }),
        Err(_) => vec![],
    }
}

pub fn excludes_for(id: &str, findings: &[Finding]) -> BTreeSet<String> {
    findings
        .iter()
        .filter(|f| f.status == "known" && f.property == id)
        .flat_map(|f| f.exclude.iter().cloned())
        .collect()
}

// ------------------------------------------------------------------ parent side

pub struct Merged {
    pub evaluations: u64,
    pub nt: BTreeSet<u64>,
    pub stats: BTreeMap<String, u64>,
    pub samples: Vec<Value>,
    pub failures: Vec<FailureOut>,
    pub extra: BTreeMap<String, Value>,
    pub inconclusive: Vec<String>,
    pub timed_out_shards: u32,
}

/// Spawns `n` shard child processes of this binary and merges their outputs.
/// removes the private scratch directory of a shard process once the parent is done with it (a
/// shard killed by the watchdog cannot do it itself)
struct Tidy(Option<PathBuf>);
impl Drop for Tidy {
    fn drop(&mut self) {
        if let Some(p) = &self.0 {
            let _ = std::fs::remove_dir_all(p);
        }
    }
}

pub fn run_shards(id: &str, tier: &str, seed: u64, n: u32, cases_per_shard: u32, exclude: &BTreeSet<String>, watchdog: Duration) -> Result<Merged, String> {
    let exe = std::env::current_exe().map_err(|e| e.to_string())?;
    let outdir = scratch_root().join("out");
    std::fs::create_dir_all(&outdir).map_err(|e| e.to_string())?;
    let mut kids = vec![];
    for i in 0..n {
        let out = outdir.join(format!("shard{i}.json"));
        let child = std::process::Command::new(&exe)
            .arg("shard")
            .arg(id)
            .arg("--tier")
            .arg(tier)
            .arg("--seed")
            .arg(seed.to_string())
            .arg("--shard")
            .arg(i.to_string())
            .arg("--cases")
            .arg(cases_per_shard.to_string())
            .arg("--exclude")
            .arg(exclude.iter().cloned().collect::<Vec<_>>().join(","))
            .arg("--out")
            .arg(&out)
            .env("FJV_PHASE_FILE", outdir.join(format!("phase{i}")))
            .stdout(std::process::Stdio::null())
            .spawn()
            .map_err(|e| format!("spawn shard: {e}"))?;
        kids.push((i, child, out));
    }
    let start = Instant::now();
    let mut m = Merged {
        evaluations: 0,
        nt: BTreeSet::new(),
        stats: BTreeMap::new(),
        samples: vec![],
        failures: vec![],
        extra: BTreeMap::new(),
        inconclusive: vec![],
        timed_out_shards: 0,
    };
    for (i, mut child, out) in kids {
        let child_scratch = scratch_root().parent().map(|b| b.join(format!("fjv-{}", child.id())));
        let _tidy = Tidy(child_scratch);
        loop {
            match child.try_wait() {
                Ok(Some(st)) => {
                    match std::fs::read_to_string(&out).ok().and_then(|s| serde_json::from_str::<ShardOut>(&s).ok()) {
                        Some(o) => {
                            m.evaluations += o.evaluations;
                            m.nt.extend(o.nt_hashes);
                            for (k, v) in o.stats {
                                *m.stats.entry(k).or_insert(0) += v;
                            }
                            if m.samples.len() < 4 {
                                m.samples.extend(o.samples.into_iter().take(1));
                            }
                            if let Some(f) = o.failure {
                                m.failures.push(f);
                            }
                            for (k, v) in o.extra {
                                match (m.extra.get_mut(&k), &v) {
                                    (Some(Value::Number(a)), Value::Number(b)) => {
                                        let s = a.as_u64().unwrap_or(0) + b.as_u64().unwrap_or(0);
                                        m.extra.insert(k, json!(s));
                                    }
                                    (None, _) => {
                                        m.extra.insert(k, v);
                                    }
                                    _ => {}
                                }
                            }
                            if let Some(x) = o.inconclusive {
                                m.inconclusive.push(format!("shard {i}: {x}"));
                            }
                        }
                        None => m.inconclusive.push(format!("shard {i} produced no output (exit {st})")),
                    }
                    break;
                }
                Ok(None) => {
                    if start.elapsed() > watchdog {
                        let _ = child.kill();
                        let _ = child.wait();
                        let ph = std::fs::read_to_string(outdir.join(format!("phase{i}"))).unwrap_or_default();
                        m.inconclusive.push(format!("shard {i} exceeded the watchdog of {watchdog:?} (last phase: {ph})"));
                        m.timed_out_shards += 1;
                        break;
                    }
                    std::thread::sleep(Duration::from_millis(20));
                }
                Err(e) => {
                    m.inconclusive.push(format!("shard {i}: wait failed: {e}"));
                    break;
                }
            }
        }
    }
    let _ = std::fs::remove_dir_all(scratch_root());
    Ok(m)
}

pub fn write_replay(id: &str, f: &FailureOut) -> PathBuf {
    let dir = out_root().join("replays");
    std::fs::create_dir_all(&dir).ok();
    let h = case_hash(&f.case.to_string());
    let p = dir.join(format!("{id}-{h:016x}.json"));
    let v = json!({"property": id, "case": f.case, "failure": {"step": f.step, "msg": f.msg, "original_msg": f.original_msg}});
    std::fs::write(&p, serde_json::to_string_pretty(&v).unwrap()).ok();
    p
}

#[allow(clippy::too_many_arguments)]
pub fn write_evidence(
    id: &str,
    tier: &str,
    seed: u64,
    level: &str,
    m: &Merged,
    rule: &str,
    assumptions: &[&str],
    wall: f64,
    violations: usize,
    more: Value,
) {
    let dir = out_root().join("evidence");
    std::fs::create_dir_all(&dir).ok();
    let mut cov = json!({
        "evaluations": m.evaluations,
        "distinct_nontrivial": m.nt.len(),
        "rule": rule,
        "samples": m.samples,
        "class_histogram": m.stats,
        "inconclusive": m.inconclusive,
    });
    if let (Value::Object(c), Value::Object(x)) = (&mut cov, more) {
        for (k, v) in x {
            c.insert(k, v);
        }
    }
    for (k, v) in &m.extra {
        cov.as_object_mut().unwrap().insert(k.clone(), v.clone());
    }
    let ev = json!({
        "property_id": id,
        "tier": tier,
        "seed": seed,
        "level": level,
        "coverage": cov,
        "assumptions": assumptions,
        "wall_s": wall,
        "violations": violations,
    });
    std::fs::write(dir.join(format!("{id}.json")), serde_json::to_string_pretty(&ev).unwrap()).ok();
}

pub fn write_replay_raw(id: &str, v: &Value) -> PathBuf {
    let dir = out_root().join("replays");
    std::fs::create_dir_all(&dir).ok();
    let p = dir.join(format!("{id}-{:016x}.json", case_hash(&v.to_string())));
    std::fs::write(&p, serde_json::to_string_pretty(v).unwrap()).ok();
    p
}

pub fn clear_old_replays(id: &str) {
    if let Ok(rd) = std::fs::read_dir(out_root().join("replays")) {
        for e in rd.flatten() {
            if e.file_name().to_string_lossy().starts_with(&format!("{id}-")) {
                let _ = std::fs::remove_file(e.path());
            }
        }
    }
}

pub fn corpus_files(id: &str) -> Vec<PathBuf> {
    let d = Path::new(VERIF).join("corpus").join(id);
    let mut v: Vec<PathBuf> = std::fs::read_dir(d)
        .map(|rd| rd.filter_map(|e| e.ok().map(|e| e.path())).filter(|p| p.extension().map_or(false, |x| x == "json")).collect())
        .unwrap_or_default();
    v.sort();
    v
}

pub fn load_case_file(p: &Path) -> Result<Value, String> {
    let s = std::fs::read_to_string(p).map_err(|e| format!("{}: {e}", p.display()))?;
    let v: Value = serde_json::from_str(&s).map_err(|e| format!("{}: {e}", p.display()))?;
    Ok(v.get("case").cloned().unwrap_or(v))
}

/// Full E1 check (parent): corpus, known findings, generated search, evidence. Returns exit code.
pub fn check_e1(def: &E1Def, tier: &str, seed: u64) -> i32 {
    let t0 = Instant::now();
    let findings = load_findings();
    let mut exclude = excludes_for(def.id, &findings);
    if let Ok(x) = std::env::var("FJV_DEBUG_EXCLUDE") {
        // debugging aid only (never set by registered commands)
        exclude.extend(x.split(',').filter(|s| !s.is_empty()).map(str::to_string));
    }
    let mut violations: Vec<PathBuf> = vec![];
    clear_old_replays(def.id);
    // 1. regression corpus
    let mut corpus_n = 0;
    for p in corpus_files(def.id) {
        match load_case_file(&p).and_then(|v| serde_json::from_value::<Case>(v).map_err(|e| e.to_string())) {
            Ok(case) => {
                corpus_n += 1;
                if let Some((step, msg)) = replay_e1(def, &case, &exclude) {
                    println!("corpus case {} fails at step {step}: {msg}", p.display());
                    violations.push(p.clone());
                }
            }
            Err(e) => eprintln!("skipping corpus file: {e}"),
        }
    }
    // 2. known findings (exact replays, exclusions off for the replay itself)
    let mut known_lines = 0;
    for f in findings.iter().filter(|f| f.property == def.id && f.status == "known") {
        if let Some(rp) = &f.replay {
            let p = Path::new(VERIF).join(rp);
            if let Ok(case) = load_case_file(&p).and_then(|v| serde_json::from_value::<Case>(v).map_err(|e| e.to_string())) {
                if replay_e1(def, &case, &BTreeSet::new()).is_some() {
                    println!("KNOWN-FINDING: property={} {} [{}]", def.id, f.what, f.id);
                    known_lines += 1;
                }
            }
        }
    }
    // 3. generated search
    let total = if tier == "thorough" { def.thorough_cases } else { def.quick_cases };
    let n = 16u32;
    let per = total.div_ceil(n);
    let watchdog = Duration::from_secs(if tier == "thorough" { 3 * 3600 } else { 900 });
    let m = match run_shards(def.id, tier, seed, n, per, &exclude, watchdog) {
        Ok(m) => m,
        Err(e) => {
            eprintln!("engine failure: {e}");
            return 2;
        }
    };
    for f in &m.failures {
        let p = write_replay(def.id, f);
        println!("failure at step {}: {}", f.step, f.msg);
        violations.push(p);
    }
    let wall = t0.elapsed().as_secs_f64();
    write_evidence(
        def.id,
        tier,
        seed,
        "exploration",
        &m,
        def.rule,
        &def.assumptions,
        wall,
        violations.len(),
        json!({"corpus_cases_replayed": corpus_n, "known_findings_reproduced": known_lines,
               "excluded_known": m.stats.get("excluded_known").copied().unwrap_or(0),
               "exclusions_active": exclude.iter().cloned().collect::<Vec<_>>(),
               "engine": "E1 in-process model-based PBT (proptest), 0 worker threads, workers stepped by the program"}),
    );
    println!(
        "{}: {} cases, {} distinct non-trivial, {} violations, {:.1}s",
        def.id,
        m.evaluations,
        m.nt.len(),
        violations.len(),
        wall
    );
    if !violations.is_empty() {
        for p in &violations {
            println!("VIOLATION property={} replay={}", def.id, p.display());
        }
        return 1;
    }
    for x in &m.inconclusive {
        eprintln!("inconclusive: {x}");
    }
    crate::driver::exit_code_for_inconclusive(&m)
}

/// Generic parent-side check for engines whose replay files are raw JSON values.
#[allow(clippy::too_many_arguments)]
pub fn check_simple(
    id: &str,
    tier: &str,
    seed: u64,
    total_quick: u32,
    total_thorough: u32,
    level: &str,
    rule: &str,
    assumptions: &[&str],
    replay: fn(&Value, &BTreeSet<String>) -> Option<String>,
    unit: &str,
) -> i32 {
    let t0 = Instant::now();
    clear_old_replays(id);
    let findings = load_findings();
    let mut exclude = excludes_for(id, &findings);
    if let Ok(x) = std::env::var("FJV_DEBUG_EXCLUDE") {
        exclude.extend(x.split(',').filter(|s| !s.is_empty()).map(str::to_string));
    }
    if std::env::var("FJV_DEBUG_NO_EXCLUDE").is_ok() {
        exclude.clear();
    }
    let mut violations = vec![];
    let mut corpus_n = 0;
    let load = |p: &Path| std::fs::read_to_string(p).map_err(|e| e.to_string()).and_then(|s| serde_json::from_str::<Value>(&s).map_err(|e| e.to_string()));
    for p in corpus_files(id) {
        if let Ok(v) = load(&p) {
            corpus_n += 1;
            if let Some(msg) = replay(&v, &exclude) {
                println!("corpus case {} fails: {msg}", p.display());
                violations.push(p.clone());
            }
        }
    }
    let mut known = 0;
    for f in findings.iter().filter(|f| f.property == id && f.status == "known") {
        if let Some(rp) = &f.replay {
            if let Ok(v) = load(&Path::new(VERIF).join(rp)) {
                if replay(&v, &BTreeSet::new()).is_some() {
                    println!("KNOWN-FINDING: property={id} {} [{}]", f.what, f.id);
                    known += 1;
                }
            }
        }
    }
    let total = if tier == "thorough" { total_thorough } else { total_quick };
    let m = match run_shards(id, tier, seed, 16, total.div_ceil(16), &exclude, Duration::from_secs(if tier == "thorough" { 4 * 3600 } else { 1200 })) {
        Ok(m) => m,
        Err(e) => {
            eprintln!("engine failure: {e}");
            return 2;
        }
    };
    for f in &m.failures {
        let p = write_replay_raw(id, &f.case);
        println!("failure: {}", f.msg);
        violations.push(p);
    }
    let wall = t0.elapsed().as_secs_f64();
    write_evidence(
        id,
        tier,
        seed,
        level,
        &m,
        rule,
        assumptions,
        wall,
        violations.len(),
        json!({"corpus_cases_replayed": corpus_n, "known_findings_reproduced": known,
               "excluded_known": m.stats.get("excluded_known").copied().unwrap_or(0),
               "exclusions_active": exclude.iter().cloned().collect::<Vec<_>>()}),
    );
    println!("{id}: {} {unit}, {} distinct non-trivial, {} violations, {:.1}s", m.evaluations, m.nt.len(), violations.len(), wall);
    if !violations.is_empty() {
        for p in &violations {
            println!("VIOLATION property={id} replay={}", p.display());
        }
        return 1;
    }
    for x in &m.inconclusive {
        eprintln!("inconclusive: {x}");
    }
    crate::driver::exit_code_for_inconclusive(&m)
}

/// A shard that exceeded the watchdog (or a budget that was hit) only truncates the exploration:
/// the property held on everything explored, which the evidence reports (`inconclusive` list).
/// Exit 2 is reserved for runs that explored nothing or whose engine failed in most shards.
pub fn exit_code_for_inconclusive(m: &Merged) -> i32 {
    if m.evaluations == 0 {
        return 2;
    }
    let bad = m.inconclusive.len() as u32;
    if bad > 4 {
        return 2;
    }
    0
}
