//! E2 property drivers: C02 (process crash), C03 (torn batches), C09 (power loss), C10 (journal
//! eviction), C13 (fail-stop after journal I/O failure).

use crate::case::*;
use crate::driver::*;
use crate::e2::*;
use crate::gen::{case_s, Profile, Weights};
use proptest::strategy::{Strategy, ValueTree};
use serde::{Deserialize, Serialize};
use serde_json::{json, Value};
use std::collections::{BTreeMap, BTreeSet};
use std::path::Path;
use std::time::{Duration, Instant};

#[derive(Clone, Copy, PartialEq, Eq, Debug)]
pub enum Mode {
    Crash,
    Torn,
    PowerLoss,
    Evict,
    Fault,
}

pub struct E2Def {
    pub id: &'static str,
    pub mode: Mode,
    pub profile: Profile,
    pub quick_programs: u32,
    pub thorough_programs: u32,
    /// kill points per program in the quick tier (thorough: all)
    pub quick_points: usize,
    pub rule: &'static str,
    pub assumptions: Vec<&'static str>,
}

pub fn e2_profile_base() -> Profile {
    Profile {
        max_ops: 22,
        flavors: vec![Flavor::Plain, Flavor::SingleWriter, Flavor::Optimistic],
        w: Weights {
            write: 30,
            weak: 0,
            batch: 10,
            clear: 2,
            ingest: 0,
            persist: 2,
            rotate: 6,
            step: 8,
            major: 2,
            read: 0,
            tx: 10,
            auto: 3,
            ks_admin: 3,
            reopen: 2,
            audit: 0,
            view: 0,
            iter: 0,
        },
        big: true,
        hot_keys: true,
        no_manual_persist: true,
        ..Profile::default()
    }
}

pub fn e2(id: &str) -> Option<E2Def> {
    Some(match id {
        "C02" => E2Def {
            id: "C02",
            mode: Mode::Crash,
            profile: e2_profile_base(),
            quick_programs: 96,
            thorough_programs: 240,
            quick_points: 48,
            rule: "for each generated program (single writes, batches, transactions of both flavours, clears, keyspace create/delete, rotate/flush/compact/major-compact steps, journal rotation+eviction via position scale, reopen inside the program) one count run under the LD_PRELOAD interposer, then a real SIGKILL before tracked call n (thorough: every n; quick: a stratified sample incl. every journal call) and torn variants (first/middle/last byte) of journal writes; recovery by the real code on the real directory; oracle = recovered state equals S_p for acked <= p <= started, second reopen identical, new writes supersede and survive a further reopen; non-trivial = kill point strictly inside an operation (or inside a flush/compaction/rotation/recovery step) with >=1 operation acknowledged before; distinct by (program hash, n, t)",
            assumptions: vec![
                "crash points are file-mutating libc calls plus byte splits of journal writes (rustix forced onto libc; measured equal to strace counts)",
                "single foreground thread, workers stepped synchronously, default (automatic) journal persist",
                "kill points before the initial setup has finished are judged only by: reopen succeeds or the directory holds no acknowledged data",
            ],
        },
        "C03" => {
            let mut p = e2_profile_base();
            p.max_ops = 14;
            p.w.batch = 30;
            p.w.tx = 12;
            p.w.write = 14;
            p.w.clear = 4;
            p.w.reopen = 4;
            p.w.ks_admin = 1;
            p.hot_keys = false;
            E2Def {
                id: "C03",
                mode: Mode::Torn,
                profile: p,
                quick_programs: 64,
                thorough_programs: 400,
                quick_points: 0,
                rule: "programs = generated prefix (batches, transactions, single writes, clears, rotations/flushes, optionally a reopen so that the journal is in append mode) + a final batch/transaction of 1-12 items over 1-3 keyspaces (values on both sides of the compression threshold and of the 8 KiB journal buffer, tombstones, journal compression on/off); the final batch's journal bytes are located from the interposer log; the journal is then cut at EVERY byte offset of that batch (sampled if > 1500 B in quick / > 20000 B in thorough), once zero padded and once truncated, and the real recovery code runs on each image: recovered state must be exactly S_(m-1) (all earlier batches, nothing of the torn one), then appends to the repaired journal must be recoverable; plus real SIGKILL torn writes at random split points of the final write() calls; non-trivial = cut strictly inside a batch of >= 2 items; distinct by (program hash, offset, padding mode)",
                assumptions: vec![
                    "a journal ending at byte x is produced by cutting the cleanly closed image at x (identical to a crash during the final append, since the final batch is the last operation); real torn kills cross-check this",
                    "final batches larger than the enumeration limit are sampled, not exhaustive",
                ],
            }
        }
        "C09" => {
            let mut p = e2_profile_base();
            p.no_manual_persist = false;
            p.w.persist = 14;
            p.w.batch = 12;
            p.w.reopen = 2;
            p.w.ks_admin = 1;
            p.max_ops = 20;
            E2Def {
                id: "C09",
                mode: Mode::PowerLoss,
                profile: p,
                quick_programs: 320,
                thorough_programs: 800,
                quick_points: 40,
                rule: "programs with persist(Buffer|SyncData|SyncAll) at generated positions, batches/transactions with explicit durability, journal rotations (position scale), reopen (clean drop); two thirds run under the power-loss adversary: SIGKILL before a tracked call after the first sync point, then every journal byte written after that file's last successful fsync/fdatasync is reverted (zeroed inside the pre-allocated region, truncated beyond), then real recovery: every operation acknowledged before the last acknowledged sync point (sync persist, sync-durability commit, journal rotation, clean drop) must be present and the journal-derived content must be a prefix; one third uses manual journal persist (database and keyspaces) with a plain process crash: everything before the last acknowledged persist(Buffer)/flush point must survive. Independently the interposer log of the clean run is checked: at every acknowledged sync point no journal byte is unsynced, rotation syncs the old journal before the new one is created, clean drop leaves nothing unsynced. non-trivial = crash after >=1 sync point with >=1 acknowledged later write and (power loss) >0 bytes actually reverted; distinct by (program hash, kill index)",
                assumptions: vec![
                    "power loss is modelled over the syscall log: unsynced journal DATA is lost, directory operations and table files persist (the adversary the property names)",
                    "crash points are libc-call boundaries",
                ],
            }
        }
        "C10" => {
            let mut p = e2_profile_base();
            p.max_ops = 30;
            p.max_ks = 3;
            p.w.write = 40;
            p.w.batch = 10;
            p.w.rotate = 10;
            p.w.step = 14;
            p.w.clear = 3;
            p.w.ks_admin = 3;
            p.w.reopen = 1;
            p.w.tx = 4;
            p.hot_keys = false;
            E2Def {
                id: "C10",
                mode: Mode::Evict,
                profile: p,
                quick_programs: 128,
                thorough_programs: 200,
                quick_points: 14,
                rule: "programs over 2-3 keyspaces with different memtable sizes, journal position scale 64000 (journal rotation after ~1 KB, in fjall's unmodified Flush path), generated orders of rotate / worker-step / clear / keyspace deletion, ending with 'rotate + flush every keyspace'; SIGKILL immediately after and immediately before EVERY unlink of a *.jnl file plus sampled generic points; oracle = recovery yields the full acknowledged state (prefix model, p >= acknowledged); log invariants: unlinked journal ids strictly increasing, always the smallest id present, never the active journal; at the end journal_count() == 1 and exactly one *.jnl on disk; non-trivial = kill adjacent to a journal unlink in a program with >= 2 journal rotations; distinct by (program hash, kill index)",
                assumptions: vec!["max_journaling_size stays at its default (the straggler path needs >= 64 MiB of journals and is not reached)"],
            }
        }
        "C13" => {
            let mut p = e2_profile_base();
            p.max_ops = 16;
            p.w.write = 40;
            p.w.batch = 14;
            p.w.clear = 4;
            p.w.persist = 8;
            p.w.tx = 0;
            p.w.auto = 0;
            p.w.ks_admin = 0;
            p.w.reopen = 3;
            p.w.weak = 0;
            // a fifth of the programs use manual journal persist (fail-stop clauses only)
            p.no_manual_persist = false;
            E2Def {
                id: "C13",
                mode: Mode::Fault,
                profile: p,
                quick_programs: 96,
                thorough_programs: 200,
                quick_points: 40,
                rule: "programs of inserts, removes, batches (incl. records larger than the 8 KiB journal buffer), clears, persist calls, rotations/flush steps (journal rotation via position scale), reopens before the fault (recovered keyspaces), automatic journal persist and — for the fail-stop clauses (1) and (2) only, since an acknowledged write is then by contract not yet persisted — manual journal persist at database or keyspace level, all three database flavours; for journal-file call index n (thorough: every n; quick: a seeded sample) x fault kind {EIO on write, ENOSPC on write, true short write then ENOSPC, EIO on fsync/fdatasync} x {one-shot, sticky}, plus plain short writes (half of the bytes accepted, no error; once or on every write: nothing may fail and everything acknowledged must be recovered) the program runs to completion under the interposer; oracle: (1) the foreground write operation during which the fault fired returns an error, (2) every write-kind operation attempted afterwards returns an error, (3) after a fault-free reopen the state equals the acknowledged state or that plus the whole failed operation; non-trivial = the fault fired inside an operation and >= 1 further write was attempted afterwards; distinct by (program hash, fault spec)",
                assumptions: vec![
                    "generated programs run on a single foreground thread with stepped workers; several writer threads are exercised by separate sampled runs (fault at a random journal call, large memtables so that every journal call happens in a foreground operation)",
                    "faults are injected on journal (*.jnl) files only; table-file errors are lsm-tree's domain",
                ],
            }
        }
        _ => return None,
    })
}

#[derive(Serialize, Deserialize, Clone, Debug)]
pub struct E2Replay {
    pub property: String,
    pub case: Case,
    pub inject: Inject,
    #[serde(default)]
    pub cut: Option<Cut>,
    #[serde(default)]
    pub extra: Option<Value>,
    pub failure: Value,
}

#[derive(Serialize, Deserialize, Clone, Debug)]
pub struct Cut {
    pub at: u64,
    pub mode: u8,
}

pub struct CountRun {
    pub states: Vec<StateLine>,
    pub log: Vec<LogLine>,
    pub init_calls: usize,
    pub total_calls: usize,
}

pub fn count_run(sb: &Sandbox, case: &Case) -> Result<CountRun, String> {
    let out = run_child(sb, case, &Inject::default(), true);
    if out.timed_out {
        return Err("count run timed out".into());
    }
    let m = parse_marker(&sb.marker);
    if out.code != Some(0) {
        // exit 3 / 5: the interpreter's own oracle (model comparison, reopen audit) failed or fjall
        // panicked although nothing was injected: that is a violation in its own right
        let tag = if matches!(out.code, Some(3) | Some(5)) { "UNINJECTED-RUN-FAILED: " } else { "" };
        return Err(format!("{tag}count run failed (exit {:?}): {:?} {:?}", out.code, m.errors, m.panic));
    }
    let states = read_states(&sb.states);
    if states.len() != case.ops.len() + 1 {
        return Err("count run produced an incomplete state list".into());
    }
    let log = parse_log(&sb.log);
    let total = log.len();
    Ok(CountRun {
        init_calls: m.init.unwrap_or(0),
        states,
        log,
        total_calls: total,
    })
}

/// one kill run + recovery check. Ok(nontrivial) or Err(message)
pub fn kill_and_check(sb: &Sandbox, case: &Case, cr: &CountRun, n: i64, t: i64) -> Result<bool, String> {
    let inj = Inject {
        kill: Some((n, t)),
        fail: None,
        scope_jnl: false,
    };
    let out = run_child(sb, case, &inj, false);
    if out.timed_out {
        return Err("INCONCLUSIVE: kill run timed out".into());
    }
    if !out.killed {
        // the call sequence was shorter than in the count run: nothing to judge
        return Ok(false);
    }
    let m = parse_marker(&sb.marker);
    let pre_init = m.init.is_none();
    let rec = recover_and_match(&sb.root, &case.cfg, &cr.states, m.acked, m.started, pre_init)?;
    if !pre_init {
        post_recovery_probe(&sb.root, &case.cfg, &rec.state)?;
    }
    LAST_CRASH_OP.with(|c| c.set(if m.started > m.acked { Some(m.started - 1) } else { None }));
    Ok(!pre_init && m.acked >= 1 && m.started > m.acked)
}

thread_local! {
    /// index of the operation inside which the last kill happened (None: between operations / at close)
    pub static LAST_CRASH_OP: std::cell::Cell<Option<usize>> = const { std::cell::Cell::new(None) };
}

pub fn op_kind(op: &Op) -> &'static str {
    match op {
        Op::Insert { .. } => "Insert",
        Op::Remove { .. } => "Remove",
        Op::RemoveWeak { .. } => "RemoveWeak",
        Op::Batch { .. } => "Batch",
        Op::Clear { .. } => "Clear",
        Op::Ingest { .. } => "Ingest",
        Op::Persist { .. } => "Persist",
        Op::Rotate { .. } => "Rotate",
        Op::Step { .. } | Op::Drain => "WorkerStep",
        Op::MajorCompact { .. } => "MajorCompact",
        Op::TxCommit { .. } => "TxCommit",
        Op::Auto { .. } => "Auto",
        Op::CreateKs { .. } => "CreateKs",
        Op::DeleteKs { .. } => "DeleteKs",
        Op::Reopen { .. } => "Reopen",
        Op::SettleJournals => "SettleJournals",
        _ => "Other",
    }
}

fn sample_points(cr: &CountRun, quick_points: usize, rng: &mut u64, thorough: bool) -> Vec<(i64, i64)> {
    let mut pts: Vec<(i64, i64)> = vec![];
    let start = cr.init_calls.saturating_sub(3);
    let all: Vec<usize> = (start..cr.total_calls).collect();
    let mut next = || {
        *rng ^= *rng << 13;
        *rng ^= *rng >> 7;
        *rng ^= *rng << 17;
        *rng
    };
    if thorough || all.len() <= quick_points {
        for n in &all {
            pts.push((*n as i64, -1));
        }
    } else {
        // all journal calls first (record boundaries), then a stratified sample of the rest
        let jn: Vec<usize> = all.iter().copied().filter(|n| is_jnl(&cr.log[*n].path)).collect();
        let mut chosen: BTreeSet<usize> = BTreeSet::new();
        let take_j = jn.len().min(quick_points * 3 / 4);
        for k in 0..take_j {
            chosen.insert(jn[k * jn.len() / take_j]);
        }
        let rest = quick_points - chosen.len();
        let stride = all.len() as f64 / rest as f64;
        for k in 0..rest {
            let lo = (k as f64 * stride) as usize;
            let hi = (((k + 1) as f64 * stride) as usize).max(lo + 1).min(all.len());
            chosen.insert(all[lo + (next() as usize) % (hi - lo)]);
        }
        for n in chosen {
            pts.push((n as i64, -1));
        }
    }
    // torn variants of journal writes
    let jw: Vec<&LogLine> = cr.log.iter().filter(|l| l.seq >= start && l.op == "write" && is_jnl(&l.path) && l.len > 1).collect();
    let max_torn = if thorough { jw.len() } else { jw.len().min(6) };
    for k in 0..max_torn {
        let l = jw[if thorough { k } else { k * jw.len() / max_torn }];
        for t in [1, l.len / 2, l.len - 1] {
            if t > 0 && t < l.len {
                pts.push((l.seq as i64, t));
            }
        }
    }
    pts
}

fn gen_case(profile: &Profile, seed: [u8; 32], skip: u32) -> Vec<Case> {
    let mut r = runner(1, seed);
    let s = case_s(profile);
    (0..skip).map(|_| s.new_tree(&mut r).unwrap().current()).collect()
}

/// greedy op-removal shrinking with the predicate "some kill point still fails"
fn shrink_crash(sb: &Sandbox, case: &Case, budget: Duration) -> (Case, Inject, String) {
    let t0 = Instant::now();
    let fails = |c: &Case| -> Option<(Inject, String)> {
        let cr = count_run(sb, c).ok()?;
        let mut rng = 1u64;
        for (n, t) in sample_points(&cr, 0, &mut rng, true) {
            if let Err(e) = kill_and_check(sb, c, &cr, n, t) {
                if !e.starts_with("INCONCLUSIVE") {
                    return Some((
                        Inject {
                            kill: Some((n, t)),
                            fail: None,
                            scope_jnl: false,
                        },
                        e,
                    ));
                }
            }
        }
        None
    };
    let mut best = case.clone();
    let mut best_f = match fails(&best) {
        Some(f) => f,
        None => return (best, Inject::default(), "failure did not reproduce during shrinking".into()),
    };
    let mut i = 0;
    while i < best.ops.len() && t0.elapsed() < budget {
        let mut c = best.clone();
        c.ops.remove(i);
        if let Some(f) = fails(&c) {
            best = c;
            best_f = f;
        } else {
            i += 1;
        }
    }
    // simplify configuration
    if best.cfg.ks.len() > 1 && t0.elapsed() < budget {
        let mut c = best.clone();
        c.cfg.ks.truncate(1);
        if let Some(f) = fails(&c) {
            best = c;
            best_f = f;
        }
    }
    (best, best_f.0, best_f.1)
}

pub fn shard_e2(def: &E2Def, tier: &str, seed: u64, shard: u32, programs: u32) -> ShardOut {
    match def.mode {
        Mode::Torn => return crate::e2torn::shard_torn(def, tier, seed, shard, programs),
        Mode::PowerLoss => return crate::e2power::shard_power(def, tier, seed, shard, programs),
        Mode::Evict => return crate::e2evict::shard_evict(def, tier, seed, shard, programs),
        Mode::Fault => return crate::e2fault::shard_fault(def, tier, seed, shard, programs),
        _ => {}
    }
    silence_panics();
    let thorough = tier == "thorough";
    let base = scratch_root().join(format!("e2s{shard}"));
    let sb = Sandbox::new(&base);
    let cases = gen_case(&def.profile, seed_bytes(seed, shard, def.id), programs);
    let mut out = ShardOut::default();
    let mut rng = seed ^ (u64::from(shard) << 32) ^ 0x1234_5678_9abc_def1;
    let mut stats: BTreeMap<String, u64> = BTreeMap::new();
    'prog: for (pi, case) in cases.into_iter().enumerate() {
        // every third program is a structured scenario (see scenario.rs) instead of a free one
        let mut focus = 0..0;
        let case = if pi % 3 == 2 {
            let r = case_hash(&(seed, shard, pi as u64, 0x5ce0u32));
            let sc = if (pi / 3 + shard as usize) % 2 == 0 { crate::scenario::after_eviction(r) } else { crate::scenario::storm(r) };
            *stats.entry(format!("scenario_{}", sc.name)).or_insert(0) += 1;
            focus = sc.focus;
            sc.case
        } else {
            case
        };
        let cr = match count_run(&sb, &case) {
            Ok(c) => c,
            Err(e) => {
                if e.starts_with("UNINJECTED-RUN-FAILED") {
                    out.failure = Some(uninjected_failure(def.id, &case, &e));
                    break 'prog;
                }
                *stats.entry("count_run_failed".into()).or_insert(0) += 1;
                continue;
            }
        };
        *stats.entry("programs".into()).or_insert(0) += 1;
        *stats.entry("tracked_calls".into()).or_insert(0) += cr.total_calls as u64;
        // engine self-check: clean run recovers to the final state
        if let Err(e) = recover_and_match(&sb.root, &case.cfg, &cr.states, case.ops.len(), case.ops.len(), false) {
            out.failure = Some(FailureOut {
                case: serde_json::to_value(&E2Replay {
                    property: def.id.into(),
                    case: case.clone(),
                    inject: Inject::default(),
                    cut: None,
                    extra: None,
                    failure: json!({"msg": format!("clean close + reopen: {e}")}),
                })
                .unwrap(),
                msg: format!("clean close + reopen: {e}"),
                step: 0,
                original_msg: String::new(),
            });
            break 'prog;
        }
        let mut pts = sample_points(&cr, def.quick_points, &mut rng, thorough);
        if !focus.is_empty() && !thorough {
            // every tracked call inside the focus operations (strided above 90 calls)
            let lo = cr.states[focus.start].calls;
            let hi = cr.states[focus.end.min(cr.states.len() - 1)].calls;
            let n = hi.saturating_sub(lo);
            let stride = n.div_ceil(90).max(1);
            let have: BTreeSet<i64> = pts.iter().filter(|p| p.1 < 0).map(|p| p.0).collect();
            let off = (rng as usize) % stride;
            for c in (lo + off..hi).step_by(stride) {
                if !have.contains(&(c as i64)) {
                    pts.push((c as i64, -1));
                    *stats.entry("focus_points".into()).or_insert(0) += 1;
                }
            }
        }
        let h = case_hash(&case);
        for (n, t) in pts {
            out.evaluations += 1;
            let kind = cr.log.get(n as usize).map_or("?".to_string(), |l| {
                format!("{}{}{}", l.op, if is_jnl(&l.path) { ":jnl" } else { "" }, if t >= 0 { ":torn" } else { "" })
            });
            *stats.entry(format!("kill_at_{kind}")).or_insert(0) += 1;
            match kill_and_check(&sb, &case, &cr, n, t) {
                Ok(nt) => {
                    if let Some(i) = LAST_CRASH_OP.with(|c| c.get()) {
                        if let Some(op) = case.ops.get(i) {
                            *stats.entry(format!("crash_inside_{}", op_kind(op))).or_insert(0) += 1;
                        }
                    }
                    if nt {
                        out.nt_hashes.push(case_hash(&(h, n, t)));
                        if out.samples.len() < 2 {
                            out.samples.push(json!({"case": case, "kill_before_call": n, "torn_bytes": t, "call": cr.log.get(n as usize).map(|l| format!("{} {}", l.op, l.path.rsplit('/').next().unwrap_or("")))}));
                        }
                    }
                }
                Err(e) if e.starts_with("INCONCLUSIVE") => {
                    *stats.entry("inconclusive_points".into()).or_insert(0) += 1;
                }
                Err(e) => {
                    let (c2, inj, msg) = shrink_crash(&sb, &case, Duration::from_secs(90));
                    let (c2, inj, msg) = if inj.kill.is_some() {
                        (c2, inj, msg)
                    } else {
                        (case.clone(), Inject { kill: Some((n, t)), fail: None, scope_jnl: false }, e.clone())
                    };
                    out.failure = Some(FailureOut {
                        case: serde_json::to_value(&E2Replay {
                            property: def.id.into(),
                            case: c2,
                            inject: inj,
                            cut: None,
                            extra: None,
                            failure: json!({"msg": msg, "original_msg": e}),
                        })
                        .unwrap(),
                        msg,
                        step: n as usize,
                        original_msg: e,
                    });
                    break 'prog;
                }
            }
        }
    }
    out.stats = stats;
    let _ = std::fs::remove_dir_all(&base);
    out
}

pub fn replay_e2(def: &E2Def, rp: &E2Replay) -> Option<String> {
    silence_panics();
    let base = scratch_root().join("e2replay");
    let sb = Sandbox::new(&base);
    if let Some(c) = &rp.cut {
        return crate::e2torn::replay_cut(&rp.case, c.at, c.mode);
    }
    if def.mode == Mode::PowerLoss {
        return crate::e2power::replay_power(rp);
    }
    if def.mode == Mode::Evict {
        return crate::e2evict::replay_evict(rp);
    }
    if def.mode == Mode::Fault {
        return crate::e2fault::replay_fault(rp);
    }
    let r = (|| -> Result<(), String> {
        let cr = count_run(&sb, &rp.case)?;
        match rp.inject.kill {
            Some((n, t)) => kill_and_check(&sb, &rp.case, &cr, n, t).map(|_| ()),
            None => recover_and_match(&sb.root, &rp.case.cfg, &cr.states, rp.case.ops.len(), rp.case.ops.len(), false).map(|_| ()),
        }
    })();
    let _ = std::fs::remove_dir_all(&base);
    let _ = def;
    r.err()
}

pub fn check_e2(def: &E2Def, tier: &str, seed: u64) -> i32 {
    let t0 = Instant::now();
    if !Path::new(SHIM).exists() {
        eprintln!("interposer {SHIM} missing (run setup.sh)");
        return 2;
    }
    clear_old_replays(def.id);
    let findings = load_findings();
    let mut violations = vec![];
    let mut corpus_n = 0;
    for p in corpus_files(def.id) {
        if let Ok(s) = std::fs::read_to_string(&p) {
            if let Ok(rp) = serde_json::from_str::<E2Replay>(&s) {
                corpus_n += 1;
                if let Some(msg) = replay_e2(def, &rp) {
                    println!("corpus case {} fails: {msg}", p.display());
                    violations.push(p.clone());
                }
            }
        }
    }
    let mut known_lines = 0;
    for f in findings.iter().filter(|f| f.property == def.id && f.status == "known") {
        if let Some(rp) = &f.replay {
            if let Ok(s) = std::fs::read_to_string(Path::new(VERIF).join(rp)) {
                if let Ok(rp) = serde_json::from_str::<E2Replay>(&s) {
                    if replay_e2(def, &rp).is_some() {
                        println!("KNOWN-FINDING: property={} {} [{}]", def.id, f.what, f.id);
                        known_lines += 1;
                    }
                }
            }
        }
    }
    let total = if tier == "thorough" { def.thorough_programs } else { def.quick_programs };
    let n = 16u32;
    let per = total.div_ceil(n);
    let watchdog = Duration::from_secs(if tier == "thorough" { 4 * 3600 } else { 1200 });
    let m = match run_shards(def.id, tier, seed, n, per, &BTreeSet::new(), watchdog) {
        Ok(m) => m,
        Err(e) => {
            eprintln!("engine failure: {e}");
            return 2;
        }
    };
    for f in &m.failures {
        let dir = out_root().join("replays");
        std::fs::create_dir_all(&dir).ok();
        let p = dir.join(format!("{}-{:016x}.json", def.id, case_hash(&f.case.to_string())));
        std::fs::write(&p, serde_json::to_string_pretty(&f.case).unwrap()).ok();
        println!("failure: {}", f.msg);
        violations.push(p);
    }
    let wall = t0.elapsed().as_secs_f64();
    write_evidence(
        def.id,
        tier,
        seed,
        "fault_enumeration",
        &m,
        def.rule,
        &def.assumptions,
        wall,
        violations.len(),
        json!({"corpus_cases_replayed": corpus_n, "known_findings_reproduced": known_lines,
               "programs": m.stats.get("programs").copied().unwrap_or(0),
               "exhaustive_per_program": tier == "thorough",
               "engine": "E2: workload child under LD_PRELOAD interposer, real SIGKILL at enumerated calls, real recovery, prefix-model oracle"}),
    );
    println!(
        "{}: {} programs, {} crash/fault points, {} distinct non-trivial, {} violations, {:.1}s",
        def.id,
        m.stats.get("programs").copied().unwrap_or(0),
        m.evaluations,
        m.nt.len(),
        violations.len(),
        wall
    );
    if !violations.is_empty() {
        for p in &violations {
            println!("VIOLATION property={} replay={}", def.id, p.display());
        }
        return 1;
    }
    for x in &m.inconclusive {
        eprintln!("inconclusive: {x}");
    }
    if m.stats.get("programs").copied().unwrap_or(0) == 0 {
        return 2;
    }
    crate::driver::exit_code_for_inconclusive(&m)
}

pub fn uninjected_failure(id: &str, case: &Case, e: &str) -> FailureOut {
    let msg = format!("without any injected crash or fault: {e}");
    FailureOut {
        case: serde_json::to_value(&E2Replay { property: id.into(), case: case.clone(), inject: Inject::default(), cut: None, extra: None, failure: json!({"msg": msg}) }).unwrap(),
        msg,
        step: 0,
        original_msg: String::new(),
    }
}
