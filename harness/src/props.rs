//! Property definitions (generator profile, oracle switches, non-triviality rule).

use crate::case::Flavor;
use crate::driver::E1Def;
use crate::gen::{Profile, Weights};
use crate::interp::{Opts, Stats};

const ALL_FLAVORS: [Flavor; 3] = [Flavor::Plain, Flavor::SingleWriter, Flavor::Optimistic];

pub fn e1(id: &str) -> Option<E1Def> {
    Some(match id {
        "C01" => E1Def {
            id: "C01",
            // a keyspace recovered by a reopen is a keyspace like any other: a few reopens are part of
            // the programs (what a reopen must preserve is C04's and C11's subject)
            profile: Profile {
                max_ops: 45,
                flavors: vec![Flavor::Plain],
                w: Weights { reopen: 1, ..Weights::default() },
                ..Profile::default()
            },
            thorough_profile: Some(Profile {
                max_ops: 120,
                w: Weights { reopen: 1, ..Weights::default() },
                ..Profile::default()
            }),
            opts: Opts {
                audit_after_maint: true,
                ..Opts::default()
            },
            nt: |s: &Stats| {
                (s.get("flushes") + s.get("table_changes") + s.get("major_compactions") > 0)
                    && (s.get("nt_read_overwritten_after_flush") + s.get("nt_scan_over_overwritten_after_flush") > 0)
            },
            rule: "cases = {config, program} from proptest strategies (ops: insert/remove/remove_weak-in-precondition/batch/clear/ingest/persist/rotate/worker-step/drain/major-compact/every read method with generated bounds, walks and guard accessors); non-trivial = the program executed >=1 flush, table change or major compaction AND afterwards read (point or scan) a key that was overwritten or removed after having reached a table; distinct by hash of the case",
            quick_cases: 57600,
            thorough_cases: 1152000,
            assumptions: vec![
                "background work is placed by the program (0 worker threads, fjall's own worker_tick stepped via cfg hook); real worker threads are covered by C14",
                "FIFO is configured so that it never evicts; remove_weak only inside its documented precondition",
                "release profile without debug assertions",
            ],
        },
        "C04" => E1Def {
            id: "C04",
            profile: Profile {
                max_ops: 45,
                flavors: ALL_FLAVORS.to_vec(),
                w: Weights {
                    reopen: 5,
                    ingest: 4,
                    clear: 2,
                    tx: 6,
                    auto: 2,
                    read: 12,
                    ks_admin: 2,
                    ..Weights::default()
                },
                ..Profile::default()
            },
            thorough_profile: Some(Profile {
                max_ops: 120,
                flavors: ALL_FLAVORS.to_vec(),
                w: Weights {
                    reopen: 5,
                    ingest: 4,
                    clear: 2,
                    tx: 6,
                    auto: 2,
                    read: 12,
                    ks_admin: 2,
                    ..Weights::default()
                },
                ..Profile::default()
            }),
            opts: Opts::default(),
            nt: |s: &Stats| s.get("reopens_after_maint_and_unflushed_write") > 0 && s.get("nt_read_both_paths_after_reopen") > 0,
            rule: "cases = {config, program} with Reopen as an operation (all handles dropped, directory opened again with different creation options); after every reopen the keyspace set and a full audit (both scan directions, get/contains_key/size_of of every key ever used, len, is_empty, first/last) are compared with the model; non-trivial = a reopen preceded by at least one of {flush, compaction, ingestion, clear} and at least one unflushed write, followed by a read of a key written both before a flush/ingestion and after it; distinct by hash of the case",
            quick_cases: 48000,
            thorough_cases: 768000,
            assumptions: vec!["clean shutdown only (crash variants are C02/C03)", "0 worker threads, workers stepped by the program"],
        },

        "C05" => {
            let w = Weights {
                write: 25,
                batch: 5,
                clear: 2,
                ingest: 2,
                rotate: 8,
                step: 10,
                major: 3,
                read: 4,
                view: 22,
                iter: 14,
                tx: 10,
                auto: 3,
                ..Weights::default()
            };
            E1Def {
                id: "C05",
                profile: Profile { max_ops: 50, flavors: ALL_FLAVORS.to_vec(), w: w.clone(), big: false, ..Profile::default() },
                thorough_profile: Some(Profile { max_ops: 120, flavors: ALL_FLAVORS.to_vec(), w, big: true, ..Profile::default() }),
                opts: Opts::default(),
                nt: |s: &Stats| s.get("nt_view_read_after_write_maint_sibling_closed") > 0,
                rule: "cases = {config, program} with a pool of live views (Database::snapshot, read_tx, write-transaction read views of both flavours, Keyspace::iter/range/prefix and Readable::iter/range/prefix iterators held half-consumed, clones, several at the same instant, closed by drop/commit/conflict/rollback in any order) interleaved with writes, clears, ingestions, rotations (pullup+gc+version maintenance), flushes, compactions; every read on a view must equal the model state captured at its creation; non-trivial = a view/iterator/transaction is read after (a) a later write and (b) a later flush/compaction/ingestion/clear while another holder opened at the same instant has already been closed; distinct by case hash",
                quick_cases: 57600,
                thorough_cases: 960000,
                assumptions: vec![
                    "single foreground thread; thread schedules of readers against writers are covered by the sampled-schedule engine",
                    "views are not read on keyspaces deleted or re-created after the view was opened",
                    "an iterator created from a write transaction is not advanced after that transaction wrote again",
                ],
            }
        }
        "C07" => {
            let w = Weights {
                write: 6,
                weak: 0,
                batch: 2,
                clear: 0,
                ingest: 0,
                persist: 0,
                rotate: 3,
                step: 4,
                major: 1,
                read: 2,
                tx: 60,
                auto: 8,
                audit: 1,
                ..Weights::default()
            };
            E1Def {
                id: "C07",
                profile: Profile { max_ops: 40, flavors: vec![Flavor::Optimistic], w: w.clone(), big: false, hot_keys: true, max_ks: 2, ..Profile::default() },
                thorough_profile: Some(Profile { max_ops: 70, flavors: vec![Flavor::Optimistic], w, big: false, hot_keys: true, max_ks: 2, ..Profile::default() }),
                opts: Opts { check_ser: true, ..Opts::default() },
                nt: |s: &Stats| s.get("nt_ser_histories_with_overlapping_rw") > 0,
                rule: "cases = histories over 1-2 keyspaces and <=7 hot keys with up to 5 concurrently open optimistic transactions driven in a generated interleaving (begin, every Readable method with generated arguments, insert/remove/take/fetch_update/update_fetch with closures-as-data, commit/rollback/drop), single-operation helpers in between, rotations/flushes so the commit table is pruned; oracle = exact strict-serializability search (some order of the committed transactions consistent with real time reproduces every recorded read result, every returned value and the final state) + every in-transaction read equals snapshot+own writes; non-trivial = >=2 committed transactions overlapping in time where one read a key/range the other wrote; distinct by case hash",
                quick_cases: 96000,
                thorough_cases: 1920000,
                assumptions: vec![
                    "single-threaded interleaving of transactions (thread schedules: sampled engine)",
                    "spurious conflicts are allowed and only counted",
                    "search budget 200k nodes per history; exceeding it counts as inconclusive for that history, never as a violation",
                ],
            }
        }
        "C08" => {
            let w = Weights {
                write: 8,
                batch: 2,
                clear: 1,
                ingest: 1,
                rotate: 3,
                step: 4,
                major: 1,
                read: 6,
                view: 3,
                iter: 3,
                tx: 60,
                auto: 8,
                ..Weights::default()
            };
            E1Def {
                id: "C08",
                profile: Profile { max_ops: 50, flavors: vec![Flavor::SingleWriter, Flavor::Optimistic], w: w.clone(), big: false, hot_keys: true, tx_mix: [2, 10, 14, 2, 1, 1], ..Profile::default() },
                thorough_profile: Some(Profile { max_ops: 100, flavors: vec![Flavor::SingleWriter, Flavor::Optimistic], w, big: true, hot_keys: true, tx_mix: [2, 10, 14, 2, 1, 1], ..Profile::default() }),
                opts: Opts { max_txs: 2, ..Opts::default() },
                nt: |s: &Stats| s.get("nt_tx_multiwrite_remove_scan") > 0,
                rule: "cases = in-transaction programs for both transactional flavours over overlapping keys and 1-3 keyspaces (repeated overwrites, removes of snapshot-resident keys followed by scans, re-inserts, take/fetch_update/update_fetch incl. unchanged-value and return-None closures, every read method with bounds), interleaved outside observers, ending in commit/rollback/drop, then a full audit; oracle = snapshot-capture + overlay model for every in-transaction read, documented return values, outside state unchanged until commit / equal to final write per key after commit / unchanged after rollback or drop; non-trivial = a transaction with >=2 writes to one key, >=1 remove of a snapshot-resident key and >=1 scan afterwards (the histogram also counts how many of those committed); distinct by case hash",
                quick_cases: 76800,
                thorough_cases: 1200000,
                assumptions: vec!["single-writer exclusion across threads is checked by the threaded part (E3)"],
            }
        }
        "C11" => {
            let w = Weights {
                reopen: 8,
                ingest: 4,
                clear: 3,
                major: 4,
                tx: 4,
                auto: 2,
                view: 4,
                read: 14,
                ks_admin: 2,
                ..Weights::default()
            };
            E1Def {
                id: "C11",
                profile: Profile { max_ops: 45, flavors: ALL_FLAVORS.to_vec(), w: w.clone(), big: false, ..Profile::default() },
                thorough_profile: Some(Profile { max_ops: 100, flavors: ALL_FLAVORS.to_vec(), w, ..Profile::default() }),
                opts: Opts { c11_probe: true, ..Opts::default() },
                nt: |s: &Stats| s.get("reopens") > 0 && s.get("nt_read_superseded_table_key") > 0,
                rule: "cases = pre-reopen histories placing the highest seqno in journal / table / both / last level / ingested table / after clear / tombstones only / other keyspace / no user data, 1..n reopens; after each reopen a probe overwrites or removes every key ever used and checks get, both scan directions and a NEW snapshot, creates+deletes a keyspace, and checks next seqno > highest seqno in any tree and visible == next; then the program continues; non-trivial = after a reopen a key whose recovered version lived in a table is overwritten/removed and read back; distinct by case hash",
                quick_cases: 48000,
                thorough_cases: 768000,
                assumptions: vec!["clean reopen here; crash-recovered directories are handed to the same probe by the crash engine"],
            }
        }
        "C12" => {
            let w = Weights {
                ks_admin: 16,
                reopen: 8,
                write: 30,
                read: 10,
                batch: 5,
                tx: 4,
                ..Weights::default()
            };
            E1Def {
                id: "C12",
                profile: Profile { max_ops: 45, flavors: ALL_FLAVORS.to_vec(), w: w.clone(), big: false, max_ks: 3, ..Profile::default() },
                thorough_profile: Some(Profile { max_ops: 100, flavors: ALL_FLAVORS.to_vec(), w, max_ks: 3, ..Profile::default() }),
                opts: Opts { check_dirs: true, audit_after_maint: true, ..Opts::default() },
                nt: |s: &Stats| s.get("nt_delete_highest_reopen_create_reopen") > 0,
                rule: "cases = histories over a pool of 4 names: create, write, delete (handles kept or dropped), writes through stale handles, re-create, create other names after a delete, reopen at any point, maintenance in between; model name -> Option<map>; every audit covers every keyspace (isolation), after delete: keyspace_exists false, not listed, insert/remove on old handles -> KeyspaceDeleted, directory gone after last handle + database dropped and after reopen, re-created / later-created keyspaces start empty and stay free of deleted records; non-trivial = delete of the keyspace with the highest id, then reopen, then creation of a keyspace, then another reopen; distinct by case hash",
                quick_cases: 57600,
                thorough_cases: 768000,
                assumptions: vec!["clean reopen here; crash points of the delete/re-create sequence are covered by the crash engine"],
            }
        }
        "C18" => {
            let w = Weights {
                write: 30,
                batch: 5,
                rotate: 10,
                step: 12,
                major: 8,
                read: 0,
                audit: 12,
                reopen: 3,
                ingest: 1,
                clear: 1,
                ..Weights::default()
            };
            E1Def {
                id: "C18",
                profile: Profile { max_ops: 45, flavors: vec![Flavor::Plain], w: w.clone(), big: false, filters: true, ..Profile::default() },
                thorough_profile: Some(Profile { max_ops: 100, flavors: vec![Flavor::Plain], w, filters: true, ..Profile::default() }),
                opts: Opts { c18: true, ..Opts::default() },
                nt: |s: &Stats| s.get("filter_removed_observed") + s.get("filter_replaced_observed") > 0 && s.get("nt_overwrite_of_filtered_key") > 0 && s.get("reopens") > 0,
                rule: "cases = assigner (generated subset of the name pool incl. names that are prefixes of each other) x filter that is a pure function of the key (hash mod 3 -> keep/remove/replace) x programs with all maintenance ops and reopen; unfiltered keyspaces and keep-keys: exact model; filtered keys: state machine original -> filtered (sticky until rewritten), nothing else observable; after rotate+flush+major_compact of a filtered keyspace every remove/replace key must be in filtered form; non-trivial = a filtered form was observed, an already-filtered key was overwritten, and >=1 reopen; distinct by case hash",
                quick_cases: 48000,
                thorough_cases: 768000,
                assumptions: vec!["filters are deterministic functions of the key"],
            }
        }
        _ => return None,
    })
}
