//! C10: a journal file is deleted only when nothing in it is still needed.

use crate::case::*;
use crate::driver::*;
use crate::e2::*;
use crate::e2drv::*;
use crate::gen::case_s;
use proptest::strategy::{Strategy, ValueTree};
use serde_json::json;
use std::collections::{BTreeMap, BTreeSet};

fn jid(path: &str) -> Option<u64> {
    path.rsplit('/').next()?.strip_suffix(".jnl")?.parse().ok()
}

/// unlinked journal ids are strictly increasing and always the smallest id present
pub fn unlink_order(log: &[LogLine]) -> Result<(usize, usize), String> {
    let mut present: BTreeSet<u64> = BTreeSet::new();
    let mut last: Option<u64> = None;
    let mut unlinks = 0;
    let mut creates = 0;
    for l in log {
        let Some(id) = jid(&l.path) else { continue };
        if l.op == "open" && (l.off & 0o100 != 0) && l.ret >= 0 {
            present.insert(id);
            creates += 1;
        } else if l.op == "unlink" && l.ret == 0 {
            unlinks += 1;
            if let Some(p) = last {
                if id <= p {
                    return Err(format!("journal {id}.jnl deleted after journal {p}.jnl (not oldest first)"));
                }
            }
            if let Some(min) = present.iter().next() {
                if *min != id {
                    return Err(format!("journal {id}.jnl deleted while older journal {min}.jnl still exists"));
                }
            }
            if present.iter().next_back() == Some(&id) {
                return Err(format!("the active (newest) journal {id}.jnl was deleted"));
            }
            present.remove(&id);
            last = Some(id);
        }
    }
    Ok((creates, unlinks))
}

pub fn shard_evict(def: &E2Def, tier: &str, seed: u64, shard: u32, programs: u32) -> ShardOut {
    silence_panics();
    let thorough = tier == "thorough";
    let base = scratch_root().join(format!("e2e{shard}"));
    let sb = Sandbox::new(&base);
    let mut r = runner(1, seed_bytes(seed, shard, def.id));
    let cs = case_s(&def.profile);
    let mut out = ShardOut::default();
    let mut stats: BTreeMap<String, u64> = BTreeMap::new();
    let mut rng = seed ^ (u64::from(shard) << 33) ^ 0x5151_5151;
    'prog: for pi in 0..programs {
        let mut case = cs.new_tree(&mut r).unwrap().current();
        case.cfg.pos_scale = 64_000;
        if case.cfg.ks.len() < 2 {
            let mut k = case.cfg.ks[0].clone();
            k.memtable = if k.memtable == 256 { 64 * 1024 * 1024 } else { 256 };
            case.cfg.ks.push(k);
        }
        // every fourth program is a "rotation storm": values above the rotation threshold into a
        // constantly flushing keyspace, a lagging keyspace that pins sealed journals, worker steps after
        // every write — journal ids run into two digits and many sealed journals coexist
        if pi % 8 == 7 {
            case.cfg.ks.truncate(2);
            case.cfg.ks[0].memtable = 256;
            case.cfg.ks[1].memtable = 64 * 1024 * 1024;
            for k in &mut case.cfg.ks {
                if matches!(k.strategy, Strat::FifoNoEvict) {
                    k.strategy = Strat::LeveledDefault;
                }
            }
            let mut ops = vec![];
            let mut x = rng | 1;
            for i in 0..36u32 {
                x ^= x << 13;
                x ^= x >> 7;
                x ^= x << 17;
                let key = B::L(format!("s{}", x % 7).into_bytes());
                ops.push(Op::Insert { ks: 0, k: key.clone(), v: B::R { len: 1100 + (x % 400) as u32, seed: (x >> 8) as u8, rnd: true } });
                if i % 5 == 1 {
                    ops.push(Op::Insert { ks: 65535, k: key, v: B::L(vec![i as u8; 9]) });
                }
                if i % 11 == 7 {
                    ops.push(Op::Reopen { alt: 0 });
                }
                ops.push(Op::Step { n: 3 });
            }
            case.ops = ops;
            *stats.entry("rotation_storm_programs".into()).or_insert(0) += 1;
        }
        // every eighth program: several keyspaces in one sealed journal, one deleted, one lagging
        if pi % 8 == 3 {
            let sc = crate::scenario::deleted_watermark(case_hash(&(seed, shard, pi, 0xde1u32)));
            case = sc.case;
            *stats.entry("deleted_watermark_programs".into()).or_insert(0) += 1;
        }
        // one more write into every keyspace, so that "every keyspace was flushed" really involves a
        // flush of each (an empty memtable is not rotated, and journal maintenance only runs on
        // rotation / after a flush); separate operations keep the prefix model exact
        for i in [0u16, 16384, 32768, 49152, 65535] {
            case.ops.push(Op::Insert { ks: i, k: B::L(b"~settle".to_vec()), v: B::L(vec![b's']) });
        }
        case.ops.push(Op::SettleJournals);
        let fail = |out: &mut ShardOut, case: &Case, inj: Inject, msg: String| {
            out.failure = Some(FailureOut {
                case: serde_json::to_value(&E2Replay { property: def.id.into(), case: case.clone(), inject: inj, cut: None, extra: None, failure: json!({"msg": msg}) }).unwrap(),
                msg,
                step: 0,
                original_msg: String::new(),
            });
        };
        let cr = match count_run(&sb, &case) {
            Ok(c) => c,
            Err(e) => {
                if e.contains("journal_count()") {
                    fail(&mut out, &case, Inject::default(), e);
                    break 'prog;
                }
                if e.starts_with("UNINJECTED-RUN-FAILED") {
                    out.failure = Some(uninjected_failure(def.id, &case, &e));
                    break 'prog;
                }
                *stats.entry("count_run_failed".into()).or_insert(0) += 1;
                continue;
            }
        };
        *stats.entry("programs".into()).or_insert(0) += 1;
        let (creates, unlinks) = match unlink_order(&cr.log) {
            Ok(x) => x,
            Err(e) => {
                fail(&mut out, &case, Inject::default(), e);
                break 'prog;
            }
        };
        *stats.entry("journal_creations".into()).or_insert(0) += creates as u64;
        *stats.entry("journal_unlinks".into()).or_insert(0) += unlinks as u64;
        if unlinks > 0 {
            *stats.entry("programs_with_eviction".into()).or_insert(0) += 1;
        }
        if creates >= 3 {
            *stats.entry("programs_with_2plus_rotations".into()).or_insert(0) += 1;
        }
        // kill points: right after and right before every journal unlink, plus a sample of the rest
        let mut pts: Vec<(i64, bool)> = vec![];
        for l in cr.log.iter().filter(|l| l.op == "unlink" && is_jnl(&l.path)) {
            pts.push((l.seq as i64 + 1, true));
            pts.push((l.seq as i64, true));
        }
        let start = cr.init_calls;
        let extra = if thorough { (start..cr.total_calls).collect::<Vec<_>>() } else {
            (0..def.quick_points).map(|_| {
                rng ^= rng << 13;
                rng ^= rng >> 7;
                rng ^= rng << 17;
                start + (rng as usize) % (cr.total_calls - start).max(1)
            }).collect()
        };
        for n in extra {
            pts.push((n as i64, false));
        }
        let h = case_hash(&case);
        for (n, adjacent) in pts {
            out.evaluations += 1;
            match kill_and_check(&sb, &case, &cr, n, -1) {
                Ok(_) => {
                    if adjacent {
                        *stats.entry("kills_adjacent_to_journal_unlink".into()).or_insert(0) += 1;
                    }
                    if adjacent && creates >= 3 {
                        out.nt_hashes.push(case_hash(&(h, n)));
                        if out.samples.len() < 2 {
                            out.samples.push(json!({"case": case, "kill_before_call": n, "call_before": cr.log.get((n - 1).max(0) as usize).map(|l| format!("{} {}", l.op, l.path.rsplit('/').next().unwrap_or("")))}));
                        }
                    }
                }
                Err(e) if e.starts_with("INCONCLUSIVE") => {}
                Err(e) => {
                    fail(&mut out, &case, Inject { kill: Some((n, -1)), fail: None, scope_jnl: false }, e);
                    break 'prog;
                }
            }
        }
    }
    out.stats = stats;
    let _ = std::fs::remove_dir_all(&base);
    out
}

pub fn replay_evict(rp: &E2Replay) -> Option<String> {
    silence_panics();
    let base = scratch_root().join("e2ereplay");
    let sb = Sandbox::new(&base);
    let r = (|| -> Result<(), String> {
        let cr = count_run(&sb, &rp.case)?;
        unlink_order(&cr.log)?;
        if let Some((n, t)) = rp.inject.kill {
            kill_and_check(&sb, &rp.case, &cr, n, t)?;
        }
        Ok(())
    })();
    let _ = std::fs::remove_dir_all(&base);
    r.err().filter(|e| !e.starts_with("INCONCLUSIVE"))
}
