//! C13: fail-stop after a journal I/O failure (injected EIO / ENOSPC / short write / fsync error).

use crate::case::*;
use crate::driver::*;
use crate::e2::*;
use crate::e2drv::*;
use crate::gen::case_s;
use crate::model::State;
use crate::real::{open_db, OpenOpts};
use proptest::strategy::{Strategy, ValueTree};
use serde_json::json;
use std::collections::BTreeMap;

fn is_write_kind(op: &Op) -> bool {
    matches!(
        op,
        Op::Insert { .. } | Op::Remove { .. } | Op::RemoveWeak { .. } | Op::Clear { .. } | Op::Persist { .. } | Op::Batch { .. }
    )
}

/// does the program choose not to persist somewhere (database / keyspace level manual journal
/// persist, or a batch with `durability(None)`)?
fn is_manual(case: &Case) -> bool {
    case.cfg.db_manual_persist || case.cfg.ks.iter().any(|k| k.manual_persist) || case.ops.iter().any(|o| matches!(o, Op::Batch { dur, .. } if dur % 5 == 1))
}

/// model-only application of a (possibly failed) operation
fn apply_model(st: &State, op: &Op) -> State {
    let mut s = st.clone();
    let names: Vec<String> = s.keys().cloned().collect();
    let name = |i: u16| idx(i, names.len()).map(|j| names[j].clone());
    match op {
        Op::Insert { ks, k, v } => {
            if let Some(n) = name(*ks) {
                s.get_mut(&n).unwrap().insert(k.mat(), v.mat());
            }
        }
        Op::Remove { ks, k } | Op::RemoveWeak { ks, k } => {
            if let Some(n) = name(*ks) {
                s.get_mut(&n).unwrap().remove(&k.mat());
            }
        }
        Op::Clear { ks } => {
            if let Some(n) = name(*ks) {
                s.get_mut(&n).unwrap().clear();
            }
        }
        Op::Batch { items, .. } => {
            for (ks, k, v) in items {
                if let Some(n) = name(*ks) {
                    match v {
                        Some(v) => {
                            s.get_mut(&n).unwrap().insert(k.mat(), v.mat());
                        }
                        None => {
                            s.get_mut(&n).unwrap().remove(&k.mat());
                        }
                    }
                }
            }
        }
        _ => {}
    }
    s
}

pub fn fault_check(sb: &Sandbox, case: &Case, fail: &str) -> Result<bool, String> {
    let inj = Inject { kill: None, fail: Some(fail.to_string()), scope_jnl: true };
    let out = run_child_tolerant(sb, case, &inj);
    if out.timed_out {
        return Err("INCONCLUSIVE: fault run timed out".into());
    }
    let m = parse_marker(&sb.marker);
    let states = read_states(&sb.states);
    if m.init.is_none() || states.is_empty() {
        return Ok(false);
    }
    let log = parse_log(&sb.log);
    if fail.contains("short_only") {
        // a short write is not an error: the writer must complete the record; everything is
        // acknowledged and must be recovered
        if !log.iter().any(|l| l.op == "writeSHORT") {
            return Ok(false);
        }
        if let Some((i, e)) = m.errors.first() {
            return Err(format!("a short write (no error) on the journal made operation {i} fail: {e}"));
        }
        if is_manual(case) {
            // manual persist: what is on disk after the run is the caller's business
            return Ok(true);
        }
        let acked = states.last().unwrap().state.clone();
        let cfg = case.cfg.clone();
        let root = sb.root.clone();
        let r = std::panic::catch_unwind(std::panic::AssertUnwindSafe(|| -> Result<State, String> {
            let db = open_db(&root, &cfg, &OpenOpts { workers: 0, lz4: cfg.journal_lz4 }).map_err(|e| format!("reopening failed: {e:?}"))?;
            dump_db(&db)
        }));
        let got = match r {
            Ok(x) => x?,
            Err(_) => return Err("recovery panicked after a short write".into()),
        };
        if got != acked {
            return Err(format!("after a short write (half of the bytes accepted by the kernel, no error) acknowledged operations are missing after reopen: {}", state_diff(&got, &acked)));
        }
        return Ok(true);
    }
    let Some(first_fail) = log.iter().find(|l| l.op == "writeFAIL" || l.op == "syncFAIL") else {
        return Ok(false); // fault index beyond the call sequence of this run
    };
    // operation during which the fault fired
    let mut fop: Option<usize> = None;
    for i in 0..states.len().saturating_sub(1) {
        if states[i].calls <= first_fail.seq && first_fail.seq < states[i + 1].calls {
            fop = Some(i);
        }
    }
    let res = |i: usize| m.results.get(&i).map(String::as_str);
    let mut attempted_after = 0;
    // "on that database instance": a reopen after the fault creates a new instance, and a fault that
    // fires inside a reopen (drop-time flush, recovery) has no failing foreground write; such runs
    // are not judged
    if let Some(f) = fop {
        if case.ops[f..].iter().any(|o| matches!(o, Op::Reopen { .. })) {
            return Ok(false);
        }
    }
    if let Some(f) = fop {
        if is_write_kind(&case.ops[f]) && res(f) == Some("ok") {
            return Err(format!(
                "injected {} on the journal during operation {f} ({}), but the operation was acknowledged",
                first_fail.op,
                op_kind(&case.ops[f])
            ));
        }
        // from then on no write of any kind is acknowledged
        for i in f + 1..case.ops.len() {
            if is_write_kind(&case.ops[i]) {
                if let Some(r) = res(i) {
                    attempted_after += 1;
                    if r == "ok" {
                        return Err(format!(
                            "operation {i} ({}) was acknowledged after the journal failure in operation {f} ({}; {} at journal call)",
                            op_kind(&case.ops[i]),
                            op_kind(&case.ops[f]),
                            first_fail.op
                        ));
                    }
                }
            }
        }
    }
    // under manual journal persist an acknowledged write is by contract not yet persisted: only the
    // fail-stop clauses above apply, the recovered content is not compared (reopen must still work)
    let manual = is_manual(case);
    if manual {
        let cfg = case.cfg.clone();
        let root = sb.root.clone();
        let r = std::panic::catch_unwind(std::panic::AssertUnwindSafe(|| -> Result<(), String> {
            open_db(&root, &cfg, &OpenOpts { workers: 0, lz4: cfg.journal_lz4 }).map(|_| ()).map_err(|e| format!("reopening after the I/O failure failed: {e:?}"))
        }));
        match r {
            Ok(x) => x?,
            Err(_) => return Err("recovery panicked after the I/O failure (manual persist)".into()),
        }
        return Ok(fop.is_some() && attempted_after >= 1);
    }
    // fault-free reopen: acknowledged state, the failed operation wholly present or wholly absent
    let acked = states.last().unwrap().state.clone();
    let mut candidates = vec![acked.clone()];
    if let Some(f) = fop {
        if res(f) != Some("ok") {
            candidates.push(apply_model(&states[f].state, &case.ops[f]));
            // later operations were all refused, so S_f (+) op_f is the only other possibility
        }
    }
    let cfg = case.cfg.clone();
    let root = sb.root.clone();
    let r = std::panic::catch_unwind(std::panic::AssertUnwindSafe(|| -> Result<State, String> {
        let db = open_db(&root, &cfg, &OpenOpts { workers: 0, lz4: cfg.journal_lz4 }).map_err(|e| format!("reopening after the I/O failure failed: {e:?}"))?;
        dump_db(&db)
    }));
    let got = match r {
        Ok(x) => x?,
        Err(p) => {
            let msg = p.downcast_ref::<String>().cloned().or_else(|| p.downcast_ref::<&str>().map(|s| (*s).to_string())).unwrap_or_default();
            return Err(format!("recovery panicked: {msg}"));
        }
    };
    if !candidates.contains(&got) {
        return Err(format!(
            "after a fault-free reopen the state is neither the acknowledged state nor that plus the whole failed operation; vs acknowledged: {}",
            state_diff(&got, &acked)
        ));
    }
    Ok(fop.is_some() && attempted_after >= 1)
}

pub fn run_child_tolerant(sb: &Sandbox, case: &Case, inj: &Inject) -> ChildOut {
    std::env::set_var("FJV_TOLERANT", "1");
    let o = run_child(sb, case, inj, true);
    std::env::remove_var("FJV_TOLERANT");
    o
}

pub fn shard_fault(def: &E2Def, tier: &str, seed: u64, shard: u32, programs: u32) -> ShardOut {
    silence_panics();
    let thorough = tier == "thorough";
    let base = scratch_root().join(format!("e2f{shard}"));
    let sb = Sandbox::new(&base);
    let mut r = runner(1, seed_bytes(seed, shard, def.id));
    let cs = case_s(&def.profile);
    let mut out = ShardOut::default();
    let mut stats: BTreeMap<String, u64> = BTreeMap::new();
    let mut rng = seed ^ (u64::from(shard) << 35) ^ 0x7777_1234;
    'prog: for pi in 0..programs {
        let mut case = cs.new_tree(&mut r).unwrap().current();
        for k in &mut case.cfg.ks {
            if matches!(k.strategy, Strat::FifoNoEvict) {
                k.strategy = Strat::LeveledDefault;
            }
        }
        // every sixth program: database-level manual journal persist with explicit persist(Buffer)
        // calls between the writes (the journal is then only written by persist or when the 8 KiB
        // buffer overflows, so the injected failure lands in those calls)
        if pi % 6 == 5 {
            case.cfg.db_manual_persist = true;
            let mut ops = vec![];
            for (i, op) in case.ops.drain(..).enumerate() {
                ops.push(op);
                if i % 3 == 1 {
                    ops.push(Op::Persist { mode: 0 });
                }
            }
            case.ops = ops;
            *stats.entry("manual_persist_programs".into()).or_insert(0) += 1;
        }
        // count run with journal scope gives the journal call list
        let cr = {
            let out0 = run_child(&sb, &case, &Inject { kill: None, fail: None, scope_jnl: true }, true);
            if matches!(out0.code, Some(3) | Some(5)) {
                let m = parse_marker(&sb.marker);
                out.failure = Some(uninjected_failure(def.id, &case, &format!("UNINJECTED-RUN-FAILED: {:?} {:?}", m.errors, m.panic)));
                break 'prog;
            }
            if out0.code != Some(0) {
                *stats.entry("count_run_failed".into()).or_insert(0) += 1;
                continue;
            }
            let m = parse_marker(&sb.marker);
            (parse_log(&sb.log), m.init.unwrap_or(0))
        };
        *stats.entry("programs".into()).or_insert(0) += 1;
        let (log, init_calls) = cr;
        let jcalls: Vec<(usize, &LogLine)> = log.iter().filter(|l| is_jnl(&l.path)).enumerate().filter(|(_, l)| l.seq >= init_calls).collect();
        let mut faults: Vec<String> = vec![];
        for (idx, l) in &jcalls {
            match l.op.as_str() {
                "write" => {
                    for kind in ["eio_write", "enospc_write", "short_enospc"] {
                        for sticky in [0, 1] {
                            faults.push(format!("{idx}:{kind}:{sticky}"));
                        }
                    }
                    if l.len > 1 {
                        faults.push(format!("{idx}:short_only:0"));
                        faults.push(format!("{idx}:short_only:1"));
                    }
                }
                "fsync" | "fdatasync" => {
                    for sticky in [0, 1] {
                        faults.push(format!("{idx}:eio_sync:{sticky}"));
                    }
                }
                _ => {}
            }
        }
        if !thorough && faults.len() > def.quick_points {
            // seeded sample without replacement
            let mut v = vec![];
            for _ in 0..def.quick_points {
                rng ^= rng << 13;
                rng ^= rng >> 7;
                rng ^= rng << 17;
                let i = (rng as usize) % faults.len();
                v.push(faults.swap_remove(i));
            }
            faults = v;
        }
        let h = case_hash(&case);
        for f in faults {
            out.evaluations += 1;
            let kind = f.split(':').nth(1).unwrap_or("?").to_string();
            *stats.entry(format!("fault_{kind}")).or_insert(0) += 1;
            match fault_check(&sb, &case, &f) {
                Ok(nt) => {
                    if nt {
                        out.nt_hashes.push(case_hash(&(h, &f)));
                        if out.samples.len() < 2 {
                            out.samples.push(json!({"case": case, "fault": f}));
                        }
                    }
                }
                Err(e) if e.starts_with("INCONCLUSIVE") => {}
                Err(e) => {
                    // shrink: drop operations while the same fault kind still produces a failure
                    let (c2, f2, msg) = shrink_fault(&sb, &case, &f, &e);
                    out.failure = Some(FailureOut {
                        case: serde_json::to_value(&E2Replay { property: def.id.into(), case: c2, inject: Inject { kill: None, fail: Some(f2), scope_jnl: true }, cut: None, extra: None, failure: json!({"msg": msg, "original_msg": e}) }).unwrap(),
                        msg,
                        step: 0,
                        original_msg: e,
                    });
                    break 'prog;
                }
            }
        }
    }
    // several writer threads (sampled schedules): fault at a random journal call index
    if out.failure.is_none() {
        let runs = if thorough { programs * 12 } else { programs * 3 };
        for _ in 0..runs {
            rng ^= rng << 13;
            rng ^= rng >> 7;
            rng ^= rng << 17;
            let threads = 2 + (rng % 3) as usize;
            let ops = 8 + ((rng >> 8) % 8) as usize;
            // large memtables: every journal call then happens in a foreground operation (a failure
            // inside a background worker has a window between the error and the poison flag that a
            // sampled schedule would turn into a flaky alarm; worker-side failures are covered by
            // the single-threaded, stepped runs above)
            let flavor = 1u8;
            let idx = 3 + (rng >> 24) % 60;
            let kind = ["eio_write", "enospc_write", "short_enospc", "eio_sync"][((rng >> 40) % 4) as usize];
            let sticky = (rng >> 44) % 2;
            let f = format!("{idx}:{kind}:{sticky}");
            out.evaluations += 1;
            *stats.entry("multi_writer_fault_runs".into()).or_insert(0) += 1;
            match mt_fault_check(&sb, threads, ops, flavor, &f) {
                Ok(nt) => {
                    if nt {
                        *stats.entry("multi_writer_runs_with_writes_after_fault".into()).or_insert(0) += 1;
                        out.nt_hashes.push(case_hash(&(threads, ops, flavor, &f, rng)));
                    }
                }
                Err(e) if e.starts_with("INCONCLUSIVE") => {
                    *stats.entry("multi_writer_inconclusive".into()).or_insert(0) += 1;
                }
                Err(e) => {
                    out.failure = Some(FailureOut {
                        case: json!({"property": def.id, "kind": "multi-writer", "threads": threads, "ops": ops, "flavor": flavor, "fault": f, "failure": {"msg": e}}),
                        msg: e,
                        step: 0,
                        original_msg: String::new(),
                    });
                    break;
                }
            }
        }
    }
    out.stats = stats;
    let _ = std::fs::remove_dir_all(&base);
    out
}

fn any_fault_fails(sb: &Sandbox, case: &Case, kind: &str, sticky: &str) -> Option<(String, String)> {
    let out0 = run_child(sb, case, &Inject { kill: None, fail: None, scope_jnl: true }, true);
    if out0.code != Some(0) {
        return None;
    }
    let m = parse_marker(&sb.marker);
    let log = parse_log(&sb.log);
    let init = m.init.unwrap_or(0);
    let idxs: Vec<usize> = log.iter().filter(|l| is_jnl(&l.path)).enumerate().filter(|(_, l)| l.seq >= init && ((kind == "eio_sync") == (l.op != "write")) && (l.op == "write" || l.op == "fsync" || l.op == "fdatasync")).map(|(i, _)| i).collect();
    let _ = sticky;
    for i in idxs {
        let f = format!("{i}:{kind}:{sticky}");
        if let Err(e) = fault_check(sb, case, &f) {
            if !e.starts_with("INCONCLUSIVE") {
                return Some((f, e));
            }
        }
    }
    None
}

fn shrink_fault(sb: &Sandbox, case: &Case, fault: &str, msg: &str) -> (Case, String, String) {
    let t0 = std::time::Instant::now();
    let parts: Vec<&str> = fault.split(':').collect();
    let (kind, sticky) = (parts[1], parts[2]);
    let mut best = case.clone();
    let mut bf = (fault.to_string(), msg.to_string());
    let mut i = 0;
    while i < best.ops.len() && t0.elapsed().as_secs() < 60 {
        let mut c = best.clone();
        c.ops.remove(i);
        if let Some(x) = any_fault_fails(sb, &c, kind, sticky) {
            best = c;
            bf = x;
        } else {
            i += 1;
        }
    }
    (best, bf.0, bf.1)
}

pub fn replay_fault(rp: &E2Replay) -> Option<String> {
    silence_panics();
    let base = scratch_root().join("e2freplay");
    let sb = Sandbox::new(&base);
    let r = match &rp.inject.fail {
        Some(f) => fault_check(&sb, &rp.case, f).map(|_| ()),
        None => Ok(()),
    };
    let _ = std::fs::remove_dir_all(&base);
    r.err().filter(|e| !e.starts_with("INCONCLUSIVE"))
}

// ------------------------------------------------------------------ several writer threads

#[derive(Clone, Debug, serde::Serialize, serde::Deserialize)]
pub struct MtOp {
    pub thread: usize,
    /// keys written by this operation (1 = insert/remove, 2 = batch)
    pub keys: Vec<String>,
    pub remove: bool,
    /// interposer-log size (bytes) when the call started / returned
    pub l_start: u64,
    pub l_end: u64,
    pub ok: bool,
}

/// child side: `threads` writer threads on cloned handles, each operation on its own keys
pub fn mt_crashee(root: &str, out: &str, threads: usize, ops: usize, flavor: u8) -> i32 {
    use fjall::{Database, KeyspaceCreateOptions};
    std::panic::set_hook(Box::new(|_| {}));
    let shimlog = std::env::var("FJSHIM_LOG").unwrap_or_default();
    let now = move || std::fs::metadata(&shimlog).map(|m| m.len()).unwrap_or(0);
    fjall::verif::JOURNAL_POS_SCALE.store(64_000, std::sync::atomic::Ordering::SeqCst);
    let db = match Database::builder(root).worker_threads(2).open() {
        Ok(d) => d,
        Err(_) => return 6,
    };
    let ks = match db.keyspace("a", || KeyspaceCreateOptions::default().max_memtable_size(if flavor % 2 == 0 { 1024 } else { 64 * 1024 * 1024 })) {
        Ok(k) => k,
        Err(_) => return 6,
    };
    let ks2 = match db.keyspace("b", KeyspaceCreateOptions::default) {
        Ok(k) => k,
        Err(_) => return 6,
    };
    let init = now();
    let recs: std::sync::Mutex<Vec<MtOp>> = std::sync::Mutex::new(vec![]);
    std::thread::scope(|s| {
        for t in 0..threads {
            let (db, ks, ks2, recs, now) = (&db, &ks, &ks2, &recs, now.clone());
            s.spawn(move || {
                let mut local = vec![];
                for i in 0..ops {
                    let k1 = format!("t{t}-{i}");
                    let val = vec![b'a' + (t as u8 % 20); 20 + (i * 37 + t * 11) % 300 + if i % 9 == 8 { 9000 } else { 0 }];
                    let l_start = now();
                    let (keys, remove, ok) = match i % 5 {
                        3 => {
                            // batch over two keyspaces
                            let k2 = format!("t{t}-{i}-b");
                            let mut b = db.batch();
                            b.insert(ks, k1.clone(), val.clone());
                            b.insert(ks2, k2.clone(), val.clone());
                            (vec![k1, k2], false, b.commit().is_ok())
                        }
                        4 if i >= 4 => {
                            let k0 = format!("t{t}-{}", i - 4);
                            (vec![k0.clone()], true, ks.remove(k0).is_ok())
                        }
                        _ => (vec![k1.clone()], false, ks.insert(k1, val).is_ok()),
                    };
                    let l_end = now();
                    local.push(MtOp { thread: t, keys, remove, l_start, l_end, ok });
                }
                recs.lock().unwrap().extend(local);
            });
        }
    });
    let v = recs.into_inner().unwrap();
    let _ = std::fs::write(out, serde_json::to_string(&serde_json::json!({"init": init, "ops": v})).unwrap());
    drop(ks);
    drop(ks2);
    drop(db);
    0
}

/// parent side: one multi-threaded fault run + oracle
pub fn mt_fault_check(sb: &Sandbox, threads: usize, ops: usize, flavor: u8, fail: &str) -> Result<bool, String> {
    sb.reset();
    let exe = std::env::current_exe().unwrap();
    let out = sb.base.join("mt.json");
    let _ = std::fs::remove_file(&out);
    let mut child = std::process::Command::new(exe)
        .args(["mtcrashee", "x", "--root"])
        .arg(&sb.root)
        .arg("--out")
        .arg(&out)
        .args(["--threads", &threads.to_string(), "--ops", &ops.to_string(), "--flavor", &flavor.to_string()])
        .env("LD_PRELOAD", SHIM)
        .env("FJSHIM_ROOT", &sb.root)
        .env("FJSHIM_LOG", &sb.log)
        .env("FJSHIM_SCOPE", "jnl")
        .env("FJSHIM_FAIL", fail)
        // the failing call is held for a while (after it was logged): other writers queue up
        // behind the journal lock and must all be refused
        .env("FJSHIM_FAIL_DELAY_MS", "25")
        .env_remove("FJSHIM_KILL")
        .stdout(std::process::Stdio::null())
        .stderr(std::process::Stdio::null())
        .spawn()
        .map_err(|e| format!("INCONCLUSIVE: spawn: {e}"))?;
    let t0 = std::time::Instant::now();
    loop {
        match child.try_wait() {
            Ok(Some(_)) => break,
            Ok(None) => {
                if t0.elapsed().as_secs() > 90 {
                    let _ = child.kill();
                    let _ = child.wait();
                    return Err("INCONCLUSIVE: multi-threaded fault run timed out".into());
                }
                std::thread::sleep(std::time::Duration::from_millis(2));
            }
            Err(e) => return Err(format!("INCONCLUSIVE: {e}")),
        }
    }
    let v: serde_json::Value = match std::fs::read_to_string(&out).ok().and_then(|s| serde_json::from_str(&s).ok()) {
        Some(v) => v,
        None => return Ok(false), // the fault hit database creation
    };
    let recs: Vec<MtOp> = serde_json::from_value(v["ops"].clone()).map_err(|e| format!("INCONCLUSIVE: {e}"))?;
    // byte offset of the first fault line in the interposer log
    let log = std::fs::read_to_string(&sb.log).unwrap_or_default();
    let mut off = 0u64;
    let mut fault_at: Option<u64> = None;
    for l in log.split_inclusive('\n') {
        if l.contains(" writeFAIL ") || l.contains(" syncFAIL ") {
            fault_at = Some(off);
            break;
        }
        off += l.len() as u64;
    }
    let Some(f) = fault_at else { return Ok(false) };
    // (2) nothing is acknowledged after the failure
    let mut attempted_after = 0;
    for r in &recs {
        if r.l_start > f {
            attempted_after += 1;
        }
        if r.ok && r.l_end > f && r.l_start > f {
            return Err(format!("thread {}: operation on {:?} started after the journal failure and was acknowledged", r.thread, r.keys));
        }
        // (an operation that started before the fault and whose return was observed after it may
        // have completed just before the fault fired: the two clock readings cannot tell, so it is
        // judged by the recovery clause only)
    }
    // (3) reopen: acknowledged-before => wholly present; failed => wholly present or wholly absent
    let root = sb.root.clone();
    let r = std::panic::catch_unwind(move || -> Result<(std::collections::BTreeSet<String>, std::collections::BTreeSet<String>), String> {
        let db = fjall::Database::builder(&root).worker_threads_unchecked(0).open().map_err(|e| format!("reopening after the I/O failure failed: {e:?}"))?;
        let mut a = std::collections::BTreeSet::new();
        let mut b = std::collections::BTreeSet::new();
        for (n, set) in [("a", &mut a), ("b", &mut b)] {
            let ks = db.keyspace(n, fjall::KeyspaceCreateOptions::default).map_err(|e| format!("{e:?}"))?;
            for g in ks.iter() {
                set.insert(String::from_utf8_lossy(&g.key().map_err(|e| format!("{e:?}"))?).to_string());
            }
        }
        Ok((a, b))
    });
    let (a, b) = match r {
        Ok(x) => x?,
        Err(_) => return Err("recovery panicked".into()),
    };
    let present = |k: &String| if k.ends_with("-b") { b.contains(k) } else { a.contains(k) };
    // removed keys: key i-4 of the same thread
    let removed_ok: std::collections::BTreeSet<String> = recs.iter().filter(|r| r.remove && r.ok).map(|r| r.keys[0].clone()).collect();
    let removed_failed: std::collections::BTreeSet<String> = recs.iter().filter(|r| r.remove && !r.ok).map(|r| r.keys[0].clone()).collect();
    for r in recs.iter().filter(|r| !r.remove) {
        let states: Vec<bool> = r.keys.iter().map(present).collect();
        let later_removed = r.keys.iter().any(|k| removed_ok.contains(k) || removed_failed.contains(k));
        if r.ok && !later_removed && states.iter().any(|p| !p) {
            return Err(format!("thread {}: acknowledged write of {:?} is missing after reopen", r.thread, r.keys));
        }
        if !r.ok && states.iter().any(|p| *p) && states.iter().any(|p| !p) {
            return Err(format!("thread {}: failed batch {:?} is partially present after reopen", r.thread, r.keys));
        }
    }
    for k in &removed_ok {
        if present(k) {
            return Err(format!("acknowledged remove of {k} is undone after reopen"));
        }
    }
    Ok(attempted_after >= 1)
}
