//! C13: fail-stop after a journal I/O failure (injected EIO / ENOSPC / short write / fsync error).

use crate::case::*;
use crate::driver::*;
use crate::e2::*;
use crate::e2drv::*;
use crate::gen::case_s;
use crate::model::State;
use crate::real::{open_db, OpenOpts};
use proptest::strategy::{Strategy, ValueTree};
use serde_json::json;
use std::collections::BTreeMap;

fn is_write_kind(op: &Op) -> bool {
    matches!(
        op,
        Op::Insert { .. } | Op::Remove { .. } | Op::RemoveWeak { .. } | Op::Clear { .. } | Op::Persist { .. } | Op::Batch { .. }
    )
}

/// model-only application of a (possibly failed) operation
fn apply_model(st: &State, op: &Op) -> State {
    let mut s = st.clone();
    let names: Vec<String> = s.keys().cloned().collect();
    let name = |i: u16| idx(i, names.len()).map(|j| names[j].clone());
    match op {
        Op::Insert { ks, k, v } => {
            if let Some(n) = name(*ks) {
                s.get_mut(&n).unwrap().insert(k.mat(), v.mat());
            }
        }
        Op::Remove { ks, k } | Op::RemoveWeak { ks, k } => {
            if let Some(n) = name(*ks) {
                s.get_mut(&n).unwrap().remove(&k.mat());
            }
        }
        Op::Clear { ks } => {
            if let Some(n) = name(*ks) {
                s.get_mut(&n).unwrap().clear();
            }
        }
        Op::Batch { items, .. } => {
            for (ks, k, v) in items {
                if let Some(n) = name(*ks) {
                    match v {
                        Some(v) => {
                            s.get_mut(&n).unwrap().insert(k.mat(), v.mat());
                        }
                        None => {
                            s.get_mut(&n).unwrap().remove(&k.mat());
                        }
                    }
                }
            }
        }
        _ => {}
    }
    s
}

pub fn fault_check(sb: &Sandbox, case: &Case, fail: &str) -> Result<bool, String> {
    let inj = Inject { kill: None, fail: Some(fail.to_string()), scope_jnl: true };
    let out = run_child_tolerant(sb, case, &inj);
    if out.timed_out {
        return Err("INCONCLUSIVE: fault run timed out".into());
    }
    let m = parse_marker(&sb.marker);
    let states = read_states(&sb.states);
    if m.init.is_none() || states.is_empty() {
        return Ok(false);
    }
    let log = parse_log(&sb.log);
    if fail.contains("short_only") {
        // a short write is not an error: the writer must complete the record; everything is
        // acknowledged and must be recovered
        if !log.iter().any(|l| l.op == "writeSHORT") {
            return Ok(false);
        }
        if let Some((i, e)) = m.errors.first() {
            return Err(format!("a short write (no error) on the journal made operation {i} fail: {e}"));
        }
        let acked = states.last().unwrap().state.clone();
        let cfg = case.cfg.clone();
        let root = sb.root.clone();
        let r = std::panic::catch_unwind(std::panic::AssertUnwindSafe(|| -> Result<State, String> {
            let db = open_db(&root, &cfg, &OpenOpts { workers: 0, lz4: cfg.journal_lz4 }).map_err(|e| format!("reopening failed: {e:?}"))?;
            dump_db(&db)
        }));
        let got = match r {
            Ok(x) => x?,
            Err(_) => return Err("recovery panicked after a short write".into()),
        };
        if got != acked {
            return Err(format!("after a short write (half of the bytes accepted by the kernel, no error) acknowledged operations are missing after reopen: {}", state_diff(&got, &acked)));
        }
        return Ok(true);
    }
    let Some(first_fail) = log.iter().find(|l| l.op == "writeFAIL" || l.op == "syncFAIL") else {
        return Ok(false); // fault index beyond the call sequence of this run
    };
    // operation during which the fault fired
    let mut fop: Option<usize> = None;
    for i in 0..states.len().saturating_sub(1) {
        if states[i].calls <= first_fail.seq && first_fail.seq < states[i + 1].calls {
            fop = Some(i);
        }
    }
    let res = |i: usize| m.results.get(&i).map(String::as_str);
    let mut attempted_after = 0;
    if let Some(f) = fop {
        if is_write_kind(&case.ops[f]) && res(f) == Some("ok") {
            return Err(format!(
                "injected {} on the journal during operation {f} ({}), but the operation was acknowledged",
                first_fail.op,
                op_kind(&case.ops[f])
            ));
        }
        // from then on no write of any kind is acknowledged
        for i in f + 1..case.ops.len() {
            if is_write_kind(&case.ops[i]) {
                if let Some(r) = res(i) {
                    attempted_after += 1;
                    if r == "ok" {
                        return Err(format!(
                            "operation {i} ({}) was acknowledged after the journal failure in operation {f} ({}; {} at journal call)",
                            op_kind(&case.ops[i]),
                            op_kind(&case.ops[f]),
                            first_fail.op
                        ));
                    }
                }
            }
        }
    }
    // fault-free reopen: acknowledged state, the failed operation wholly present or wholly absent
    let acked = states.last().unwrap().state.clone();
    let mut candidates = vec![acked.clone()];
    if let Some(f) = fop {
        if res(f) != Some("ok") {
            candidates.push(apply_model(&states[f].state, &case.ops[f]));
            // later operations were all refused, so S_f (+) op_f is the only other possibility
        }
    }
    let cfg = case.cfg.clone();
    let root = sb.root.clone();
    let r = std::panic::catch_unwind(std::panic::AssertUnwindSafe(|| -> Result<State, String> {
        let db = open_db(&root, &cfg, &OpenOpts { workers: 0, lz4: cfg.journal_lz4 }).map_err(|e| format!("reopening after the I/O failure failed: {e:?}"))?;
        dump_db(&db)
    }));
    let got = match r {
        Ok(x) => x?,
        Err(p) => {
            let msg = p.downcast_ref::<String>().cloned().or_else(|| p.downcast_ref::<&str>().map(|s| (*s).to_string())).unwrap_or_default();
            return Err(format!("recovery panicked: {msg}"));
        }
    };
    if !candidates.contains(&got) {
        return Err(format!(
            "after a fault-free reopen the state is neither the acknowledged state nor that plus the whole failed operation; vs acknowledged: {}",
            state_diff(&got, &acked)
        ));
    }
    Ok(fop.is_some() && attempted_after >= 1)
}

pub fn run_child_tolerant(sb: &Sandbox, case: &Case, inj: &Inject) -> ChildOut {
    std::env::set_var("FJV_TOLERANT", "1");
    let o = run_child(sb, case, inj, true);
    std::env::remove_var("FJV_TOLERANT");
    o
}

pub fn shard_fault(def: &E2Def, tier: &str, seed: u64, shard: u32, programs: u32) -> ShardOut {
    silence_panics();
    let thorough = tier == "thorough";
    let base = scratch_root().join(format!("e2f{shard}"));
    let sb = Sandbox::new(&base);
    let mut r = runner(1, seed_bytes(seed, shard, def.id));
    let cs = case_s(&def.profile);
    let mut out = ShardOut::default();
    let mut stats: BTreeMap<String, u64> = BTreeMap::new();
    let mut rng = seed ^ (u64::from(shard) << 35) ^ 0x7777_1234;
    'prog: for _ in 0..programs {
        let mut case = cs.new_tree(&mut r).unwrap().current();
        for k in &mut case.cfg.ks {
            if matches!(k.strategy, Strat::FifoNoEvict) {
                k.strategy = Strat::LeveledDefault;
            }
        }
        // count run with journal scope gives the journal call list
        let cr = {
            let out0 = run_child(&sb, &case, &Inject { kill: None, fail: None, scope_jnl: true }, true);
            if out0.code != Some(0) {
                *stats.entry("count_run_failed".into()).or_insert(0) += 1;
                continue;
            }
            let m = parse_marker(&sb.marker);
            (parse_log(&sb.log), m.init.unwrap_or(0))
        };
        *stats.entry("programs".into()).or_insert(0) += 1;
        let (log, init_calls) = cr;
        let jcalls: Vec<(usize, &LogLine)> = log.iter().filter(|l| is_jnl(&l.path)).enumerate().filter(|(_, l)| l.seq >= init_calls).collect();
        let mut faults: Vec<String> = vec![];
        for (idx, l) in &jcalls {
            match l.op.as_str() {
                "write" => {
                    for kind in ["eio_write", "enospc_write", "short_enospc"] {
                        for sticky in [0, 1] {
                            faults.push(format!("{idx}:{kind}:{sticky}"));
                        }
                    }
                    if l.len > 1 {
                        faults.push(format!("{idx}:short_only:0"));
                        faults.push(format!("{idx}:short_only:1"));
                    }
                }
                "fsync" | "fdatasync" => {
                    for sticky in [0, 1] {
                        faults.push(format!("{idx}:eio_sync:{sticky}"));
                    }
                }
                _ => {}
            }
        }
        if !thorough && faults.len() > def.quick_points {
            // seeded sample without replacement
            let mut v = vec![];
            for _ in 0..def.quick_points {
                rng ^= rng << 13;
                rng ^= rng >> 7;
                rng ^= rng << 17;
                let i = (rng as usize) % faults.len();
                v.push(faults.swap_remove(i));
            }
            faults = v;
        }
        let h = case_hash(&case);
        for f in faults {
            out.evaluations += 1;
            let kind = f.split(':').nth(1).unwrap_or("?").to_string();
            *stats.entry(format!("fault_{kind}")).or_insert(0) += 1;
            match fault_check(&sb, &case, &f) {
                Ok(nt) => {
                    if nt {
                        out.nt_hashes.push(case_hash(&(h, &f)));
                        if out.samples.len() < 2 {
                            out.samples.push(json!({"case": case, "fault": f}));
                        }
                    }
                }
                Err(e) if e.starts_with("INCONCLUSIVE") => {}
                Err(e) => {
                    // shrink: drop operations while the same fault kind still produces a failure
                    let (c2, f2, msg) = shrink_fault(&sb, &case, &f, &e);
                    out.failure = Some(FailureOut {
                        case: serde_json::to_value(&E2Replay { property: def.id.into(), case: c2, inject: Inject { kill: None, fail: Some(f2), scope_jnl: true }, cut: None, extra: None, failure: json!({"msg": msg, "original_msg": e}) }).unwrap(),
                        msg,
                        step: 0,
                        original_msg: e,
                    });
                    break 'prog;
                }
            }
        }
    }
    out.stats = stats;
    let _ = std::fs::remove_dir_all(&base);
    out
}

fn any_fault_fails(sb: &Sandbox, case: &Case, kind: &str, sticky: &str) -> Option<(String, String)> {
    let out0 = run_child(sb, case, &Inject { kill: None, fail: None, scope_jnl: true }, true);
    if out0.code != Some(0) {
        return None;
    }
    let m = parse_marker(&sb.marker);
    let log = parse_log(&sb.log);
    let init = m.init.unwrap_or(0);
    let idxs: Vec<usize> = log.iter().filter(|l| is_jnl(&l.path)).enumerate().filter(|(_, l)| l.seq >= init && ((kind == "eio_sync") == (l.op != "write")) && (l.op == "write" || l.op == "fsync" || l.op == "fdatasync")).map(|(i, _)| i).collect();
    let _ = sticky;
    for i in idxs {
        let f = format!("{i}:{kind}:{sticky}");
        if let Err(e) = fault_check(sb, case, &f) {
            if !e.starts_with("INCONCLUSIVE") {
                return Some((f, e));
            }
        }
    }
    None
}

fn shrink_fault(sb: &Sandbox, case: &Case, fault: &str, msg: &str) -> (Case, String, String) {
    let t0 = std::time::Instant::now();
    let parts: Vec<&str> = fault.split(':').collect();
    let (kind, sticky) = (parts[1], parts[2]);
    let mut best = case.clone();
    let mut bf = (fault.to_string(), msg.to_string());
    let mut i = 0;
    while i < best.ops.len() && t0.elapsed().as_secs() < 60 {
        let mut c = best.clone();
        c.ops.remove(i);
        if let Some(x) = any_fault_fails(sb, &c, kind, sticky) {
            best = c;
            bf = x;
        } else {
            i += 1;
        }
    }
    (best, bf.0, bf.1)
}

pub fn replay_fault(rp: &E2Replay) -> Option<String> {
    silence_panics();
    let base = scratch_root().join("e2freplay");
    let sb = Sandbox::new(&base);
    let r = match &rp.inject.fail {
        Some(f) => fault_check(&sb, &rp.case, f).map(|_| ()),
        None => Ok(()),
    };
    let _ = std::fs::remove_dir_all(&base);
    r.err().filter(|e| !e.starts_with("INCONCLUSIVE"))
}
