//! E2: crash / power-loss / fault engine. The workload runs in a child process ("crashee")
//! under the LD_PRELOAD interposer; the parent enumerates kill points / faults, lets the real
//! recovery code run on the real directory and compares with the prefix model.

use crate::case::*;
use crate::interp::{Opts, World};
use crate::model::{Map, State};
use crate::real::{open_db, open_ks, DbH, OpenOpts};
use serde::{Deserialize, Serialize};
use std::collections::BTreeMap;
use std::io::Write;
use std::path::{Path, PathBuf};

pub const SHIM: &str = "/verif/shim/fjshim.so";

#[derive(Serialize, Deserialize, Clone, Debug)]
pub struct StateLine {
    /// number of completed operations (0 = after initial setup)
    pub i: usize,
    /// number of tracked calls logged so far
    pub calls: usize,
    #[serde(with = "state_serde")]
    pub state: State,
}

mod state_serde {
    use super::State;
    use serde::{Deserialize, Deserializer, Serialize, Serializer};
    type Flat = Vec<(String, Vec<(Vec<u8>, Vec<u8>)>)>;
    pub fn serialize<S: Serializer>(s: &State, ser: S) -> Result<S::Ok, S::Error> {
        let f: Flat = s
            .iter()
            .map(|(n, m)| (n.clone(), m.iter().map(|(k, v)| (k.clone(), v.clone())).collect()))
            .collect();
        f.serialize(ser)
    }
    pub fn deserialize<'de, D: Deserializer<'de>>(de: D) -> Result<State, D::Error> {
        let f = Flat::deserialize(de)?;
        Ok(f.into_iter().map(|(n, m)| (n, m.into_iter().collect())).collect())
    }
}

fn log_lines(path: &str) -> usize {
    std::fs::read(path).map(|b| b.iter().filter(|c| **c == b'\n').count()).unwrap_or(0)
}

/// Child side. Exit codes: 0 ok, 3 interpreter reported a failure (message on stderr / in marker)
pub fn crashee_main(case_file: &str, root: &str, marker: &str, states: Option<&str>) -> i32 {
    std::panic::set_hook(Box::new(|_| {}));
    let case: Case = match std::fs::read_to_string(case_file).ok().and_then(|s| serde_json::from_str(&s).ok()) {
        Some(c) => c,
        None => return 4,
    };
    let shimlog = std::env::var("FJSHIM_LOG").unwrap_or_default();
    let mut mk = std::fs::OpenOptions::new().create(true).append(true).open(marker).expect("marker");
    let mut st = states.map(|p| std::fs::OpenOptions::new().create(true).append(true).open(p).expect("states"));
    let o = Opts::default();
    let tolerant = std::env::var("FJV_TOLERANT").is_ok();
    let mut w = World::new(Path::new(root), &case.cfg, &o);
    let res = std::panic::catch_unwind(std::panic::AssertUnwindSafe(|| -> Result<(), String> {
        w.start()?;
        let _ = writeln!(mk, "I {}", log_lines(&shimlog));
        if let Some(f) = st.as_mut() {
            let _ = writeln!(f, "{}", serde_json::to_string(&StateLine { i: 0, calls: log_lines(&shimlog), state: w.model.clone() }).unwrap());
        }
        for (i, op) in case.ops.iter().enumerate() {
            let _ = writeln!(mk, "S {i}");
            w.step = i;
            let r = w.exec(op);
            match r {
                Ok(()) => {
                    let _ = writeln!(mk, "A {i} ok");
                }
                Err(e) => {
                    let _ = writeln!(mk, "E {i} {}", e.replace('\n', " "));
                    if !tolerant {
                        return Err(e);
                    }
                }
            }
            if let Some(f) = st.as_mut() {
                let _ = writeln!(f, "{}", serde_json::to_string(&StateLine { i: i + 1, calls: log_lines(&shimlog), state: w.model.clone() }).unwrap());
            }
        }
        Ok(())
    }));
    let code = match res {
        Ok(Ok(())) => 0,
        Ok(Err(_)) => 3,
        Err(p) => {
            let msg = p.downcast_ref::<String>().cloned().or_else(|| p.downcast_ref::<&str>().map(|s| (*s).to_string())).unwrap_or_default();
            let _ = writeln!(mk, "P {} {}", w.step, msg.replace('\n', " "));
            5
        }
    };
    // clean close (drop order as in the interpreter)
    let _ = std::panic::catch_unwind(std::panic::AssertUnwindSafe(|| w.close_all()));
    let _ = writeln!(mk, "C");
    code
}

#[derive(Clone, Debug, Default)]
pub struct Marker {
    pub init: Option<usize>,
    pub started: usize,
    pub acked: usize,
    pub errors: Vec<(usize, String)>,
    pub panic: Option<String>,
    pub closed: bool,
    /// per op index: result ("ok" or error text)
    pub results: BTreeMap<usize, String>,
}

pub fn parse_marker(path: &Path) -> Marker {
    let mut m = Marker::default();
    let s = std::fs::read_to_string(path).unwrap_or_default();
    for l in s.lines() {
        let mut it = l.splitn(3, ' ');
        match it.next() {
            Some("I") => m.init = it.next().and_then(|x| x.parse().ok()),
            Some("S") => m.started += 1,
            Some("A") => {
                m.acked += 1;
                if let Some(i) = it.next().and_then(|x| x.parse().ok()) {
                    m.results.insert(i, "ok".into());
                }
            }
            Some("E") => {
                let i: usize = it.next().and_then(|x| x.parse().ok()).unwrap_or(0);
                let msg = it.next().unwrap_or("").to_string();
                m.results.insert(i, msg.clone());
                m.errors.push((i, msg));
            }
            Some("P") => m.panic = Some(l.to_string()),
            Some("C") => m.closed = true,
            _ => {}
        }
    }
    m
}

#[derive(Clone, Debug)]
pub struct LogLine {
    pub seq: usize,
    pub op: String,
    pub path: String,
    pub off: i64,
    pub len: i64,
    pub ret: i64,
}

pub fn parse_log(path: &Path) -> Vec<LogLine> {
    let s = std::fs::read_to_string(path).unwrap_or_default();
    let mut v = vec![];
    for l in s.lines() {
        let p: Vec<&str> = l.split(' ').collect();
        if p.len() < 6 {
            continue;
        }
        v.push(LogLine {
            seq: p[0].parse().unwrap_or(0),
            op: p[1].to_string(),
            path: p[2].to_string(),
            off: p[3].parse().unwrap_or(0),
            len: p[4].parse().unwrap_or(0),
            ret: p[5].parse().unwrap_or(0),
        });
    }
    v
}

#[derive(Clone, Debug, Default, Serialize, Deserialize, PartialEq, Eq, Hash)]
pub struct Inject {
    /// kill before call n (all tracked calls, or journal-file calls if scope_jnl)
    pub kill: Option<(i64, i64)>,
    /// "n:kind:sticky"
    pub fail: Option<String>,
    pub scope_jnl: bool,
}

pub struct Sandbox {
    pub base: PathBuf,
    pub root: PathBuf,
    pub marker: PathBuf,
    pub log: PathBuf,
    pub states: PathBuf,
    pub case_file: PathBuf,
}

impl Sandbox {
    pub fn new(base: &Path) -> Self {
        Sandbox {
            base: base.to_path_buf(),
            root: base.join("root"),
            marker: base.join("marker"),
            log: base.join("shim.log"),
            states: base.join("states.jsonl"),
            case_file: base.join("case.json"),
        }
    }
    pub fn reset(&self) {
        let _ = std::fs::remove_dir_all(&self.root);
        let _ = std::fs::remove_file(&self.marker);
        let _ = std::fs::remove_file(&self.log);
        let _ = std::fs::remove_file(&self.states);
        std::fs::create_dir_all(&self.base).ok();
    }
}

pub struct ChildOut {
    pub code: Option<i32>,
    pub killed: bool,
    pub timed_out: bool,
}

/// Runs the case in a child under the interposer.
pub fn run_child(sb: &Sandbox, case: &Case, inj: &Inject, want_states: bool) -> ChildOut {
    sb.reset();
    std::fs::write(&sb.case_file, serde_json::to_string(case).unwrap()).unwrap();
    let exe = std::env::current_exe().unwrap();
    let mut cmd = std::process::Command::new(exe);
    cmd.arg("crashee")
        .arg("x")
        .arg("--case")
        .arg(&sb.case_file)
        .arg("--root")
        .arg(&sb.root)
        .arg("--marker")
        .arg(&sb.marker);
    if want_states {
        cmd.arg("--states").arg(&sb.states);
    }
    cmd.env("LD_PRELOAD", SHIM)
        .env("FJSHIM_ROOT", &sb.root)
        .env("FJSHIM_LOG", &sb.log)
        .env("FJSHIM_SCOPE", if inj.scope_jnl { "jnl" } else { "all" })
        .env_remove("FJSHIM_KILL")
        .env_remove("FJSHIM_FAIL")
        .stdout(std::process::Stdio::null())
        .stderr(std::process::Stdio::null());
    if let Some((n, t)) = inj.kill {
        cmd.env("FJSHIM_KILL", if t >= 0 { format!("{n}:{t}") } else { format!("{n}") });
    }
    if let Some(f) = &inj.fail {
        cmd.env("FJSHIM_FAIL", f);
    }
    let mut child = cmd.spawn().expect("spawn crashee");
    let t0 = std::time::Instant::now();
    loop {
        match child.try_wait() {
            Ok(Some(st)) => {
                use std::os::unix::process::ExitStatusExt;
                return ChildOut {
                    code: st.code(),
                    killed: st.signal() == Some(9),
                    timed_out: false,
                };
            }
            Ok(None) => {
                if t0.elapsed().as_secs() > 60 {
                    let _ = child.kill();
                    let _ = child.wait();
                    return ChildOut {
                        code: None,
                        killed: false,
                        timed_out: true,
                    };
                }
                std::thread::sleep(std::time::Duration::from_micros(300));
            }
            Err(_) => {
                return ChildOut {
                    code: None,
                    killed: false,
                    timed_out: false,
                }
            }
        }
    }
}

pub fn read_states(p: &Path) -> Vec<StateLine> {
    std::fs::read_to_string(p)
        .unwrap_or_default()
        .lines()
        .filter_map(|l| serde_json::from_str(l).ok())
        .collect()
}

pub fn dump_db(db: &DbH) -> Result<State, String> {
    let mut out = State::new();
    let mut names: Vec<String> = db.inner().list_keyspace_names().iter().map(|s| s.to_string()).collect();
    names.sort();
    for n in names {
        let h = open_ks(db, &n, &KsCfg::default()).map_err(|e| format!("open keyspace {n}: {e:?}"))?;
        let mut m = Map::new();
        let mut prev: Option<Vec<u8>> = None;
        for g in h.ks.iter() {
            let (k, v) = g.into_inner().map_err(|e| format!("scan {n}: {e:?}"))?;
            if let Some(p) = &prev {
                if p.as_slice() >= &*k {
                    return Err(format!("scan of {n} not strictly ascending"));
                }
            }
            prev = Some(k.to_vec());
            // point read must agree with the scan
            let g2 = h.ks.get(&*k).map_err(|e| format!("get {n}: {e:?}"))?;
            if g2.as_deref() != Some(&*v) {
                return Err(format!("after recovery get({}) on {n} disagrees with the scan", crate::model::short(&k)));
            }
            m.insert(k.to_vec(), v.to_vec());
        }
        out.insert(n, m);
    }
    Ok(out)
}

pub fn state_diff(a: &State, b: &State) -> String {
    let mut s = String::new();
    for (n, m) in a {
        match b.get(n) {
            None => s.push_str(&format!("keyspace {n} only in recovered; ")),
            Some(m2) => {
                let r: Vec<_> = m.iter().map(|(k, v)| (k.clone(), v.clone())).collect();
                let w: Vec<_> = m2.iter().map(|(k, v)| (k.clone(), v.clone())).collect();
                if r != w {
                    s.push_str(&format!("[{n}] {}", crate::interp::diff(&r, &w)));
                }
            }
        }
    }
    for n in b.keys() {
        if !a.contains_key(n) {
            s.push_str(&format!("keyspace {n} missing in recovered; "));
        }
    }
    s
}

pub struct Recovered {
    pub p: usize,
    pub state: State,
}

/// Opens the directory with the real recovery code and matches the dump against S_lo..=S_hi.
pub fn recover_and_match(root: &Path, cfg: &Cfg, states: &[StateLine], lo: usize, hi: usize, pre_init: bool) -> Result<Recovered, String> {
    let cfg = cfg.clone();
    let r = std::panic::catch_unwind(std::panic::AssertUnwindSafe(|| -> Result<Recovered, String> {
        let db = open_db(root, &cfg, &OpenOpts { workers: 0, lz4: cfg.journal_lz4 }).map_err(|e| format!("reopening after the crash failed: {e:?}"))?;
        let got = dump_db(&db)?;
        drop(db);
        if pre_init {
            // crash during initial setup: a prefix of the initial keyspaces, all empty
            if got.values().all(Map::is_empty) {
                return Ok(Recovered { p: 0, state: got });
            }
            return Err("non-empty content after a crash during initial setup".into());
        }
        let hi = hi.min(states.len() - 1);
        for p in lo..=hi {
            if states[p].state == got {
                return Ok(Recovered { p, state: got });
            }
        }
        // report against the closest candidate
        let want = &states[lo.min(hi)].state;
        Err(format!(
            "recovered state equals no prefix state S_p with {lo} <= p <= {hi} (acknowledged operations: {lo}); vs S_{lo}: {}{}",
            state_diff(&got, want),
            (0..states.len()).find(|p| states[*p].state == got).map_or(String::new(), |p| format!(" [it equals S_{p}]"))
        ))
    }));
    match r {
        Ok(x) => x,
        Err(p) => {
            let msg = p.downcast_ref::<String>().cloned().or_else(|| p.downcast_ref::<&str>().map(|s| (*s).to_string())).unwrap_or_default();
            Err(format!("recovery panicked: {msg}"))
        }
    }
}

/// Second open gives the same state; new writes (single, batch over all keyspaces) are accepted,
/// supersede recovered data and survive another clean reopen.
pub fn post_recovery_probe(root: &Path, cfg: &Cfg, rec: &State) -> Result<(), String> {
    let cfg = cfg.clone();
    let r = std::panic::catch_unwind(std::panic::AssertUnwindSafe(|| -> Result<(), String> {
        let db = open_db(root, &cfg, &OpenOpts { workers: 0, lz4: !cfg.journal_lz4 }).map_err(|e| format!("second reopen failed: {e:?}"))?;
        let got = dump_db(&db)?;
        if &got != rec {
            return Err(format!("recovery is not idempotent: second reopen differs: {}", state_diff(&got, rec)));
        }
        let mut want = rec.clone();
        let names: Vec<String> = want.keys().cloned().collect();
        let dbi = db.inner().clone();
        // seqno must continue above everything recovered
        for n in &names {
            let h = open_ks(&db, n, &KsCfg::default()).map_err(|e| format!("{e:?}"))?;
            use fjall::AbstractTree;
            if let Some(s) = h.ks.tree.get_highest_seqno() {
                if dbi.seqno() <= s {
                    return Err(format!("after recovery next seqno {} <= highest recovered seqno {s} in {n}", dbi.seqno()));
                }
            }
            let fifo = matches!(h.ks.config.compaction_strategy.get_name(), "FifoCompaction");
            // no worker threads here: a keyspace recovered with several sealed memtables would keep
            // the writes below in back-pressure forever, so run the queued flushes first
            let mut guard = 0;
            while (h.ks.tree.sealed_memtable_count() >= 3 || h.ks.tree.l0_run_count() >= 18) && guard < 10_000 {
                guard += 1;
                match dbi.verif_worker_step() {
                    Ok(true) => {}
                    Ok(false) => {
                        if h.ks.tree.sealed_memtable_count() >= 4 {
                            return Err(format!("{n}: {} sealed memtables after recovery but no queued flush task (writers would stall forever)", h.ks.tree.sealed_memtable_count()));
                        }
                        if h.ks.tree.l0_run_count() >= 18 {
                            h.ks.major_compact().map_err(|e| format!("major_compact after recovery: {e:?}"))?;
                        }
                        break;
                    }
                    Err(e) => return Err(format!("worker step after recovery: {e:?}")),
                }
            }
            // overwrite / remove recovered keys, add a new key
            let keys: Vec<Vec<u8>> = want[n].keys().take(6).cloned().collect();
            if !fifo {
                for (j, k) in keys.iter().enumerate() {
                    if j % 2 == 0 {
                        h.ks.insert(k.clone(), b"after-crash".to_vec()).map_err(|e| format!("write after recovery: {e:?}"))?;
                        want.get_mut(n).unwrap().insert(k.clone(), b"after-crash".to_vec());
                    } else {
                        h.ks.remove(k.clone()).map_err(|e| format!("remove after recovery: {e:?}"))?;
                        want.get_mut(n).unwrap().remove(k);
                    }
                }
            }
            let nk = b"~~zz-after-crash".to_vec();
            h.ks.insert(nk.clone(), vec![7u8; 5000]).map_err(|e| format!("write after recovery: {e:?}"))?;
            want.get_mut(n).unwrap().insert(nk, vec![7u8; 5000]);
        }
        if names.len() >= 1 {
            let mut b = dbi.batch();
            for n in &names {
                let h = open_ks(&db, n, &KsCfg::default()).map_err(|e| format!("{e:?}"))?;
                b.insert(&h.ks, b"~~zz-batch".to_vec(), b"b".to_vec());
                want.get_mut(n).unwrap().insert(b"~~zz-batch".to_vec(), b"b".to_vec());
            }
            b.commit().map_err(|e| format!("batch after recovery: {e:?}"))?;
        }
        let got = dump_db(&db)?;
        if got != want {
            return Err(format!("after recovery new writes do not supersede recovered data: {}", state_diff(&got, &want)));
        }
        let snap = dbi.snapshot();
        for n in &names {
            let h = open_ks(&db, n, &KsCfg::default()).map_err(|e| format!("{e:?}"))?;
            use fjall::Readable;
            let c = snap.len(&h.ks).map_err(|e| format!("{e:?}"))?;
            if c != want[n].len() {
                return Err(format!("new snapshot after recovery sees {c} items in {n}, expected {}", want[n].len()));
            }
        }
        drop(snap);
        drop(dbi);
        drop(db);
        let db = open_db(root, &cfg, &OpenOpts { workers: 0, lz4: cfg.journal_lz4 }).map_err(|e| format!("third reopen failed: {e:?}"))?;
        let got = dump_db(&db)?;
        if got != want {
            return Err(format!("appends to the repaired journal were not recovered: {}", state_diff(&got, &want)));
        }
        Ok(())
    }));
    match r {
        Ok(x) => x,
        Err(p) => {
            let msg = p.downcast_ref::<String>().cloned().or_else(|| p.downcast_ref::<&str>().map(|s| (*s).to_string())).unwrap_or_default();
            Err(format!("post-recovery probe panicked: {msg}"))
        }
    }
}

pub fn is_jnl(p: &str) -> bool {
    p.ends_with(".jnl")
}
