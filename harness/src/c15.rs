//! C15: journal records round-trip bit-exactly (both compression settings, cross-readable) and
//! single-byte damage is never read back as different data.

use crate::case::*;
use crate::driver::*;
use crate::e2::{dump_db, state_diff};
use crate::e2torn::{restore_dir, snapshot_dir, FileImg};
use crate::gen::{case_s, Profile, Weights};
use crate::interp::{Opts, World};
use crate::model::State;
use crate::real::{open_db, OpenOpts};
use fjall::AbstractTree;
use proptest::strategy::{Strategy, ValueTree};
use serde_json::json;
use std::collections::{BTreeMap, BTreeSet};
use std::path::Path;

pub fn profile() -> Profile {
    Profile {
        max_ops: 14,
        flavors: vec![Flavor::Plain, Flavor::SingleWriter, Flavor::Optimistic],
        w: Weights {
            write: 30,
            weak: 3,
            batch: 16,
            clear: 3,
            ingest: 0,
            persist: 1,
            rotate: 0,
            step: 0,
            major: 0,
            read: 0,
            view: 0,
            iter: 0,
            tx: 8,
            auto: 3,
            ks_admin: 0,
            reopen: 0,
            audit: 0,
        },
        max_ks: 3,
        big: true,
        no_manual_persist: true,
        ..Profile::default()
    }
}

fn logical_end(path: &Path) -> u64 {
    use std::io::Read;
    let mut f = match std::fs::File::open(path) {
        Ok(f) => f,
        Err(_) => return 0,
    };
    let mut buf = vec![0u8; 2 * 1024 * 1024];
    let n = f.read(&mut buf).unwrap_or(0);
    buf.truncate(n);
    while buf.last() == Some(&0) {
        buf.pop();
    }
    buf.len() as u64
}

pub struct Written {
    pub states: Vec<State>,
    /// journal byte range written by each op (start, end)
    pub ranges: Vec<(u64, u64)>,
    pub img: Vec<FileImg>,
    pub jidx: usize,
    pub nt_roundtrip: bool,
}

/// runs the program in-process, returns prefix states and the closed directory image
pub fn write_phase(dir: &Path, case: &Case) -> Result<Option<Written>, String> {
    let _ = std::fs::remove_dir_all(dir);
    let o = Opts::default();
    let mut w = World::new(dir, &case.cfg, &o);
    let jpath = dir.join("0.jnl");
    let r = std::panic::catch_unwind(std::panic::AssertUnwindSafe(|| -> Result<Option<(Vec<State>, Vec<(u64, u64)>)>, String> {
        w.start()?;
        let mut states = vec![w.model.clone()];
        let mut ranges = vec![];
        let mut end = logical_end(&jpath);
        for (i, op) in case.ops.iter().enumerate() {
            w.step = i;
            w.exec(op)?;
            let e2 = logical_end(&jpath);
            ranges.push((end, e2));
            end = e2;
            states.push(w.model.clone());
        }
        // nothing may have been flushed: the journal is the only home of the data
        let tables: usize = w.ks.values().map(|h| h.ks.tree.table_count() + h.ks.tree.sealed_memtable_count()).sum();
        if tables > 0 || w.dbi().journal_count() != 1 {
            return Ok(None);
        }
        Ok(Some((states, ranges)))
    }));
    let res = match r {
        Ok(x) => x,
        Err(p) => Err(format!("panic: {}", p.downcast_ref::<String>().cloned().unwrap_or_default())),
    };
    let _ = std::panic::catch_unwind(std::panic::AssertUnwindSafe(|| w.close_all()));
    let Some((states, ranges)) = res? else { return Ok(None) };
    let img = snapshot_dir(dir);
    let jidx = img.iter().position(|f| f.rel == Path::new("0.jnl")).ok_or("no 0.jnl")?;
    let big = case.ops.iter().any(|op| match op {
        Op::Insert { v, .. } => v.len() >= 4096,
        Op::Batch { items, .. } => items.iter().any(|(_, _, v)| v.as_ref().map_or(false, |v| v.len() >= 4096)),
        _ => false,
    });
    Ok(Some(Written { states, ranges, img, jidx, nt_roundtrip: big }))
}

pub fn open_and_dump(dir: &Path, cfg: &Cfg, lz4: bool) -> Result<State, String> {
    let cfg = cfg.clone();
    let r = std::panic::catch_unwind(std::panic::AssertUnwindSafe(|| -> Result<State, String> {
        let db = open_db(dir, &cfg, &OpenOpts { workers: 0, lz4 }).map_err(|e| format!("OPENFAIL {e:?}"))?;
        dump_db(&db)
    }));
    match r {
        Ok(x) => x,
        Err(p) => Err(format!("OPENFAIL panic: {}", p.downcast_ref::<String>().cloned().or_else(|| p.downcast_ref::<&str>().map(|s| (*s).to_string())).unwrap_or_default())),
    }
}

/// one damaged image: Ok(Some(p)) recovered a prefix state, Ok(None) open failed, Err = violation
pub fn damage_eval(dir: &Path, case: &Case, wr: &Written, off: u64, mask: u8) -> Result<Option<usize>, String> {
    let mut im = wr.img.clone();
    let j = &mut im[wr.jidx];
    let o = off as usize;
    if o >= j.data.len() {
        j.data.resize(o + 1, 0);
    }
    j.data[o] ^= mask;
    restore_dir(dir, &im);
    match open_and_dump(dir, &case.cfg, case.cfg.journal_lz4) {
        Err(e) if e.starts_with("OPENFAIL") => Ok(None),
        Err(e) => Err(e),
        Ok(got) => match (0..wr.states.len()).rev().find(|p| wr.states[*p] == got) {
            Some(p) => Ok(Some(p)),
            None => Err(format!(
                "journal byte {off} altered (xor {mask:#04x}): open succeeded but the recovered state is no prefix of the commit history; vs final state: {}",
                state_diff(&got, wr.states.last().unwrap())
            )),
        },
    }
}

pub fn shard_c15(tier: &str, seed: u64, shard: u32, programs: u32, exclude: &BTreeSet<String>) -> ShardOut {
    silence_panics();
    let thorough = tier == "thorough";
    let base = scratch_root().join(format!("c15s{shard}"));
    std::fs::create_dir_all(&base).ok();
    let dir = base.join("db");
    let mut r = runner(1, seed_bytes(seed, shard, "C15"));
    let cs = case_s(&profile());
    let mut out = ShardOut::default();
    let mut stats: BTreeMap<String, u64> = BTreeMap::new();
    let mut rng = seed ^ (u64::from(shard) << 34) ^ 0xc15c_15c1;
    let mut next = move || {
        rng ^= rng << 13;
        rng ^= rng >> 7;
        rng ^= rng << 17;
        rng
    };
    let excl_h8 = exclude.contains("journal_start_marker_seqno_flip");
    'prog: for pi in 0..programs {
        let mut case = cs.new_tree(&mut r).unwrap().current();
        for k in &mut case.cfg.ks {
            k.memtable = 64 * 1024 * 1024;
            if matches!(k.strategy, Strat::FifoNoEvict) {
                k.strategy = Strat::LeveledDefault;
            }
        }
        case.cfg.pos_scale = 1;
        // damage programs stay small so that every offset can be enumerated
        let damage_prog = pi % 2 == 1;
        if damage_prog {
            for op in &mut case.ops {
                shrink_values(op);
            }
        }
        let fail = |out: &mut ShardOut, case: &Case, extra: serde_json::Value, msg: String| {
            out.failure = Some(FailureOut { case: json!({"property": "C15", "case": case, "damage": extra, "failure": {"msg": msg}}), msg, step: 0, original_msg: String::new() });
        };
        let wr = match write_phase(&dir, &case) {
            Ok(Some(w)) => w,
            Ok(None) => {
                *stats.entry("skipped_flushed".into()).or_insert(0) += 1;
                continue;
            }
            Err(e) => {
                fail(&mut out, &case, json!(null), format!("write phase: {e}"));
                break 'prog;
            }
        };
        *stats.entry("programs".into()).or_insert(0) += 1;
        let fin = wr.states.last().unwrap().clone();
        // round trip under both read-time compression settings
        for lz4 in [case.cfg.journal_lz4, !case.cfg.journal_lz4] {
            restore_dir(&dir, &wr.img);
            out.evaluations += 1;
            *stats.entry(format!("roundtrip_write_{}_read_{}", if case.cfg.journal_lz4 { "lz4" } else { "none" }, if lz4 { "lz4" } else { "none" })).or_insert(0) += 1;
            match open_and_dump(&dir, &case.cfg, lz4) {
                Ok(got) if got == fin => {
                    if wr.nt_roundtrip && lz4 != case.cfg.journal_lz4 {
                        out.nt_hashes.push(case_hash(&(case_hash(&case), lz4)));
                        if out.samples.is_empty() {
                            out.samples.push(json!({"roundtrip": case}));
                        }
                    }
                }
                Ok(got) => {
                    fail(&mut out, &case, json!({"roundtrip_read_lz4": lz4}), format!("journal round trip (written with lz4={}, read with lz4={lz4}) altered data: {}", case.cfg.journal_lz4, state_diff(&got, &fin)));
                    break 'prog;
                }
                Err(e) => {
                    fail(&mut out, &case, json!({"roundtrip_read_lz4": lz4}), format!("journal round trip (written with lz4={}, read with lz4={lz4}): {e}", case.cfg.journal_lz4));
                    break 'prog;
                }
            }
        }
        if !damage_prog {
            continue;
        }
        let data_end = wr.ranges.last().map_or(0, |r| r.1);
        if data_end == 0 {
            continue;
        }
        *stats.entry("damage_programs".into()).or_insert(0) += 1;
        // offsets: everything if small, else a stratified sample; plus a few in the zero padding
        let limit = if thorough { 6000 } else { 500 };
        let mut offs: Vec<u64> = if data_end <= limit { (0..data_end).collect() } else { (0..limit).map(|_| next() % data_end).collect() };
        if data_end <= limit {
            *stats.entry("damage_programs_all_offsets".into()).or_insert(0) += 1;
        }
        for _ in 0..6 {
            offs.push(data_end + next() % 64);
        }
        offs.sort();
        offs.dedup();
        let masks: Vec<u8> = if thorough { vec![0x01, 0x80, 0xff, (next() % 254 + 1) as u8] } else { vec![0x01, 0xff, (next() % 254 + 1) as u8] };
        let h = case_hash(&case);
        let last_start = wr.ranges.iter().rev().find(|r| r.1 > r.0).map_or(0, |r| r.0);
        for off in offs {
            // known finding H8: the seqno field of a Start marker (bytes 5..13 of a record) is not covered by the checksum
            let in_start_seqno = wr.ranges.iter().any(|(s, e)| e > s && off >= s + 5 && off < s + 13);
            if excl_h8 && in_start_seqno {
                *stats.entry("excluded_known".into()).or_insert(0) += 1;
                continue;
            }
            // besides xor masks: overwrite small bytes (tags, type and compression fields) with every
            // other small value (turns one marker kind into another)
            let orig = wr.img[wr.jidx].data.get(off as usize).copied().unwrap_or(0);
            let mut ms: Vec<u8> = masks.clone();
            // (quick tier: for a third of the small bytes; zero bytes of lengths and seqnos are frequent)
            if orig <= 4 && (thorough || next() % 3 == 0) {
                for nv in 0u8..=4 {
                    if nv != orig && !ms.contains(&(orig ^ nv)) {
                        ms.push(orig ^ nv);
                    }
                }
            }
            for m in &ms {
                out.evaluations += 1;
                match damage_eval(&dir, &case, &wr, off, *m) {
                    Ok(res) => {
                        *stats.entry(match res {
                            None => "damage_open_failed",
                            Some(p) if p + 1 == wr.states.len() => "damage_recovered_full_state",
                            Some(_) => "damage_recovered_shorter_prefix",
                        }.into()).or_insert(0) += 1;
                        if off < last_start {
                            out.nt_hashes.push(case_hash(&(h, off, *m)));
                            if out.samples.len() < 2 {
                                out.samples.push(json!({"damage": {"case": case, "offset": off, "xor": m, "outcome": format!("{res:?}")}}));
                            }
                        }
                    }
                    Err(e) => {
                        fail(&mut out, &case, json!({"offset": off, "xor": m}), e);
                        break 'prog;
                    }
                }
            }
        }
    }
    out.stats = stats;
    let _ = std::fs::remove_dir_all(&base);
    out
}

fn shrink_values(op: &mut Op) {
    let cap = |b: &mut B| {
        if b.len() > 48 {
            *b = B::R { len: 48, seed: 9, rnd: true };
        }
    };
    match op {
        Op::Insert { k, v, .. } => {
            cap(k);
            cap(v);
        }
        Op::Remove { k, .. } | Op::RemoveWeak { k, .. } => cap(k),
        Op::Batch { items, .. } => {
            items.truncate(4);
            for (_, k, v) in items {
                cap(k);
                if let Some(v) = v {
                    cap(v);
                }
            }
        }
        Op::TxWrite { w, .. } | Op::Auto { w, .. } => match w {
            TxW::Insert(k, v) => {
                cap(k);
                cap(v);
            }
            TxW::Remove(k) | TxW::Take(k) => cap(k),
            TxW::FetchUpdate(k, _) | TxW::UpdateFetch(k, _) => cap(k),
        },
        _ => {}
    }
}

pub fn replay_c15(v: &serde_json::Value) -> Option<String> {
    silence_panics();
    let case: Case = serde_json::from_value(v.get("case")?.clone()).ok()?;
    let base = scratch_root().join("c15replay");
    std::fs::create_dir_all(&base).ok();
    let dir = base.join("db");
    let r = (|| -> Result<(), String> {
        let wr = write_phase(&dir, &case)?.ok_or("INCONCLUSIVE: program flushed")?;
        let d = v.get("damage").cloned().unwrap_or(json!(null));
        if let (Some(off), Some(m)) = (d.get("offset").and_then(|x| x.as_u64()), d.get("xor").and_then(|x| x.as_u64())) {
            damage_eval(&dir, &case, &wr, off, m as u8).map(|_| ())
        } else {
            let fin = wr.states.last().unwrap().clone();
            for lz4 in [true, false] {
                restore_dir(&dir, &wr.img);
                let got = open_and_dump(&dir, &case.cfg, lz4)?;
                if got != fin {
                    return Err(format!("round trip altered data: {}", state_diff(&got, &fin)));
                }
            }
            Ok(())
        }
    })();
    let _ = std::fs::remove_dir_all(&base);
    r.err().filter(|e| !e.starts_with("INCONCLUSIVE"))
}

pub fn check_c15(tier: &str, seed: u64) -> i32 {
    let t0 = std::time::Instant::now();
    clear_old_replays("C15");
    let findings = load_findings();
    let exclude = excludes_for("C15", &findings);
    let mut violations = vec![];
    let mut corpus_n = 0;
    for p in corpus_files("C15") {
        if let Ok(v) = std::fs::read_to_string(&p).map_err(|e| e.to_string()).and_then(|s| serde_json::from_str::<serde_json::Value>(&s).map_err(|e| e.to_string())) {
            corpus_n += 1;
            if let Some(msg) = replay_c15(&v) {
                println!("corpus case {} fails: {msg}", p.display());
                violations.push(p.clone());
            }
        }
    }
    let mut known = 0;
    for f in findings.iter().filter(|f| f.property == "C15" && f.status == "known") {
        if let Some(rp) = &f.replay {
            if let Ok(v) = std::fs::read_to_string(Path::new(VERIF).join(rp)).map_err(|e| e.to_string()).and_then(|s| serde_json::from_str::<serde_json::Value>(&s).map_err(|e| e.to_string())) {
                if replay_c15(&v).is_some() {
                    println!("KNOWN-FINDING: property=C15 {} [{}]", f.what, f.id);
                    known += 1;
                }
            }
        }
    }
    let total: u32 = if tier == "thorough" { 128 } else { 96 };
    let m = match run_shards("C15", tier, seed, 16, total.div_ceil(16), &exclude, std::time::Duration::from_secs(if tier == "thorough" { 4 * 3600 } else { 1200 })) {
        Ok(m) => m,
        Err(e) => {
            eprintln!("engine failure: {e}");
            return 2;
        }
    };
    for f in &m.failures {
        let dir = out_root().join("replays");
        std::fs::create_dir_all(&dir).ok();
        let p = dir.join(format!("C15-{:016x}.json", case_hash(&f.case.to_string())));
        std::fs::write(&p, serde_json::to_string_pretty(&f.case).unwrap()).ok();
        println!("failure: {}", f.msg);
        violations.push(p);
    }
    // thorough tier supplement: coverage-guided campaign on the journal_damage fuzz target (E4)
    let mut fuzz_note = "not run (quick tier)".to_string();
    if tier == "thorough" && violations.is_empty() {
        fuzz_note = match run_fuzz_campaign(seed, 600) {
            Ok(Some(artifact)) => {
                println!("failure: fuzz target journal_damage crashed; input saved at {}", artifact.display());
                violations.push(artifact);
                "crash found".to_string()
            }
            Ok(None) => "600 s campaign, no crash".to_string(),
            Err(e) => format!("unavailable: {e}"),
        };
    }
    let wall = t0.elapsed().as_secs_f64();
    write_evidence(
        "C15",
        tier,
        seed,
        "exploration",
        &m,
        "programs = generated single writes, removes, weak removes (inside precondition), batches, transactions and clears over 1-3 keyspaces with arbitrary key/value bytes (empty values, 4095/4096/4097 B, incompressible, > 8 KiB) and NO flush (checked: no tables, one journal), journal compression X at write time; ROUND TRIP: reopen with compression X and with the other setting, content must be byte-identical to the model (non-trivial: >= 1 value >= 4096 B read under the other setting); DAMAGE: for small programs every byte offset of the journal's data region (sampled above the limit) plus offsets in the zero padding x xor masks {0x01, 0xff, random (thorough: + 0x80)}: open must fail (error or panic) or the recovered content must equal S_p for some prefix p of the commit history (non-trivial: altered byte lies inside a completed record that is followed by another record); distinct by (program hash, offset, mask)",
        &["the journal is the only home of the data (no flush happened; checked per program)", "a panic during open counts as 'failed to open' (the statement demands no altered data, not a particular error path)"],
        wall,
        violations.len(),
        json!({"corpus_cases_replayed": corpus_n, "known_findings_reproduced": known, "excluded_known": m.stats.get("excluded_known").copied().unwrap_or(0), "exclusions_active": exclude.iter().cloned().collect::<Vec<_>>(), "fuzz": fuzz_note}),
    );
    println!("C15: {} programs, {} evaluations, {} distinct non-trivial, {} violations, {:.1}s", m.stats.get("programs").copied().unwrap_or(0), m.evaluations, m.nt.len(), violations.len(), wall);
    if !violations.is_empty() {
        for p in &violations {
            println!("VIOLATION property=C15 replay={}", p.display());
        }
        return 1;
    }
    crate::driver::exit_code_for_inconclusive(&m)
}

/// Builds (if needed) and runs the libFuzzer target for `secs` seconds. Ok(Some(path)) = crashing input.
pub fn run_fuzz_campaign(seed: u64, secs: u64) -> Result<Option<std::path::PathBuf>, String> {
    let fuzz_dir = Path::new(VERIF).join("fuzz");
    if !fuzz_dir.join("Cargo.toml").exists() {
        return Err("no fuzz crate".into());
    }
    let art = fuzz_dir.join("artifacts").join("journal_damage");
    let _ = std::fs::remove_dir_all(&art);
    std::fs::create_dir_all(&art).ok();
    let corpus = scratch_root().join("fuzz-corpus");
    std::fs::create_dir_all(&corpus).ok();
    let st = std::process::Command::new("cargo")
        .current_dir(Path::new(VERIF).join("harness"))
        .env("CARGO_NET_OFFLINE", "true")
        .args(["+nightly", "fuzz", "run", "--fuzz-dir", "/verif/fuzz", "-O", "-s", "none", "--target-dir", "/verif/fuzz/target", "journal_damage"])
        .arg(&corpus)
        .arg("--")
        .arg(format!("-max_total_time={secs}"))
        .arg(format!("-seed={}", seed.max(1)))
        .args(["-max_len=1024", "-len_control=0", "-timeout=60", "-rss_limit_mb=4096"])
        .stdout(std::process::Stdio::null())
        .stderr(std::process::Stdio::null())
        .status()
        .map_err(|e| format!("cargo fuzz: {e}"))?;
    let _ = std::fs::remove_dir_all(&corpus);
    let crash = std::fs::read_dir(&art).ok().and_then(|rd| rd.flatten().map(|e| e.path()).find(|p| p.file_name().map_or(false, |n| n.to_string_lossy().starts_with("crash-"))));
    match (st.success(), crash) {
        (_, Some(p)) => Ok(Some(p)),
        (true, None) => Ok(None),
        (false, None) => Err(format!("fuzz run exited with {st} without a crash artifact (build failure, timeout or out of memory)")),
    }
}
