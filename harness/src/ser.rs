//! Strict-serializability checker over recorded transaction histories (DESIGN A.3).

use crate::case::{Read, TxW};
use crate::interp::{Outcome, Res, TxEvent, TxRec, World};
use crate::model::{apply_f, eval_read, Map, State};
use std::collections::{BTreeMap, HashSet};

pub enum SerResult {
    Ok(Vec<u64>),
    Fail(String),
    Inconclusive,
}

fn key_of(w: &TxW) -> Vec<u8> {
    match w {
        TxW::Insert(k, _) | TxW::Remove(k) | TxW::Take(k) | TxW::FetchUpdate(k, _) | TxW::UpdateFetch(k, _) => k.mat(),
    }
}

fn effective(s: &State, ov: &BTreeMap<(String, Vec<u8>), Option<Vec<u8>>>, ks: &str) -> Map {
    let mut m = s.get(ks).cloned().unwrap_or_default();
    for ((n, k), v) in ov {
        if n == ks {
            match v {
                Some(v) => {
                    m.insert(k.clone(), v.clone());
                }
                None => {
                    m.remove(k);
                }
            }
        }
    }
    m
}

/// replays `t` on `s`; None if a recorded observation does not match
fn place(s: &State, t: &TxRec) -> Option<State> {
    let mut ov: BTreeMap<(String, Vec<u8>), Option<Vec<u8>>> = BTreeMap::new();
    for ev in &t.events {
        match ev {
            TxEvent::Read { ks, r, res } => {
                // point reads avoid materialising the map
                let m = effective(s, &ov, ks);
                if &eval_read(&m, r) != res {
                    return None;
                }
            }
            TxEvent::Write { ks, w, ret } => {
                let key = key_of(w);
                let prev: Option<Vec<u8>> = match ov.get(&(ks.clone(), key.clone())) {
                    Some(v) => v.clone(),
                    None => s.get(ks).and_then(|m| m.get(&key).cloned()),
                };
                let (newv, want_ret) = match w {
                    TxW::Insert(_, v) => (Some(v.mat()), None),
                    TxW::Remove(_) => (None, None),
                    TxW::Take(_) => (None, Some(prev.clone())),
                    TxW::FetchUpdate(_, f) => (apply_f(f, prev.as_deref()), Some(prev.clone())),
                    TxW::UpdateFetch(_, f) => {
                        let nv = apply_f(f, prev.as_deref());
                        (nv.clone(), Some(nv))
                    }
                };
                if ret.is_some() && *ret != want_ret {
                    return None;
                }
                let is_write = match w {
                    TxW::Insert(..) | TxW::Remove(_) => true,
                    _ => newv != prev,
                };
                if is_write {
                    ov.insert((ks.clone(), key), newv);
                }
            }
        }
    }
    let mut out = s.clone();
    for ((n, k), v) in ov {
        let m = out.entry(n).or_default();
        match v {
            Some(v) => {
                m.insert(k, v);
            }
            None => {
                m.remove(&k);
            }
        }
    }
    Some(out)
}

fn norm(s: &State) -> State {
    s.iter().filter(|(_, m)| !m.is_empty()).map(|(k, v)| (k.clone(), v.clone())).collect()
}

pub fn check_ser(base: &State, recs: &[TxRec], fin: &State, budget: usize) -> SerResult {
    let txs: Vec<&TxRec> = recs
        .iter()
        .filter(|r| r.outcome == Outcome::Committed && !r.events.is_empty())
        .collect();
    let n = txs.len();
    if n == 0 {
        return if norm(base) == norm(fin) {
            SerResult::Ok(vec![])
        } else {
            SerResult::Fail("no committed transaction but state changed".into())
        };
    }
    if n > 60 {
        return SerResult::Inconclusive;
    }
    let fin_n = norm(fin);
    let mut seen: HashSet<(u64, u64)> = HashSet::new();
    let mut nodes = 0usize;
    let mut order: Vec<u64> = vec![];
    fn dfs(
        txs: &[&TxRec],
        mask: u64,
        s: &State,
        fin: &State,
        seen: &mut HashSet<(u64, u64)>,
        nodes: &mut usize,
        budget: usize,
        order: &mut Vec<u64>,
    ) -> Option<bool> {
        let n = txs.len();
        if mask == (1u64 << n) - 1 {
            return Some(&norm(s) == fin);
        }
        *nodes += 1;
        if *nodes > budget {
            return None;
        }
        let h = crate::case::case_hash(&norm(s));
        if !seen.insert((mask, h)) {
            return Some(false);
        }
        for i in 0..n {
            if mask & (1 << i) != 0 {
                continue;
            }
            // real-time order: every unplaced tx that ended before i began must come first
            let blocked = (0..n).any(|u| u != i && mask & (1 << u) == 0 && txs[u].end < txs[i].begin);
            if blocked {
                continue;
            }
            if let Some(s2) = place(s, txs[i]) {
                order.push(txs[i].id);
                match dfs(txs, mask | (1 << i), &s2, fin, seen, nodes, budget, order) {
                    Some(true) => return Some(true),
                    None => return None,
                    Some(false) => {}
                }
                order.pop();
            }
        }
        Some(false)
    }
    match dfs(&txs, 0, base, &fin_n, &mut seen, &mut nodes, budget, &mut order) {
        Some(true) => SerResult::Ok(order),
        Some(false) => SerResult::Fail(format!(
            "no serial order of the {} committed transactions (ids {:?}) consistent with real time reproduces all observations and the final state",
            n,
            txs.iter().map(|t| t.id).collect::<Vec<_>>()
        )),
        None => SerResult::Inconclusive,
    }
}

/// counts pairs of committed transactions that overlap in time with a read-write dependency
pub fn count_rw_overlaps(recs: &[TxRec]) -> u64 {
    let txs: Vec<&TxRec> = recs.iter().filter(|r| r.outcome == Outcome::Committed).collect();
    let mut c = 0;
    for a in &txs {
        for b in &txs {
            if a.id == b.id || a.end < b.begin || b.end < a.begin {
                continue;
            }
            let dep = a.events.iter().any(|ea| match ea {
                TxEvent::Read { ks, r, .. } => b.events.iter().any(|eb| match eb {
                    TxEvent::Write { ks: k2, w, .. } if k2 == ks => match r {
                        Read::Get(k) | Read::Contains(k) | Read::SizeOf(k) => k.mat() == key_of(w),
                        _ => true,
                    },
                    _ => false,
                }),
                _ => false,
            });
            if dep {
                c += 1;
            }
        }
    }
    c
}

impl<'a> World<'a> {
    pub fn check_serializability(&mut self) -> Res {
        let recs = std::mem::take(&mut self.ser_recs);
        let committed = recs.iter().filter(|r| r.outcome == Outcome::Committed).count();
        if committed >= 2 {
            self.st.inc("ser_segments_multi");
        }
        let ov = count_rw_overlaps(&recs);
        if ov > 0 {
            self.st.add("nt_ser_overlapping_rw_pairs", ov);
            self.st.inc("nt_ser_histories_with_overlapping_rw");
        }
        let r = check_ser(&self.ser_base, &recs, &self.model, 200_000);
        self.ser_base = self.model.clone();
        match r {
            SerResult::Ok(_) => {
                self.st.inc("ser_checked");
                Ok(())
            }
            SerResult::Inconclusive => {
                self.st.inc("ser_inconclusive");
                Ok(())
            }
            SerResult::Fail(m) => {
                let hist = serde_json::to_string(&recs).unwrap_or_default();
                Err(format!("serializability: {m}; history={hist}"))
            }
        }
    }
}
