//! Real-side wrappers: opening databases of the three flavours, keyspace options from
//! case data, and evaluation of `Read`s against the real API.

use crate::case::{Cfg, Flavor, KsCfg, Read, Sel, Strat, Walk};
use crate::model::{mk_item, norm_range, pred_key, Item, ReadRes};
use fjall::{
    Database, Guard, Iter, Keyspace, KeyspaceCreateOptions, KvSeparationOptions,
    OptimisticTxDatabase, OptimisticTxKeyspace, Readable, SingleWriterTxDatabase,
    SingleWriterTxKeyspace,
};
use std::path::Path;
use std::sync::Arc;

pub type R<T> = Result<T, String>;

pub fn es<E: std::fmt::Debug>(ctx: &str) -> impl Fn(E) -> String + '_ {
    move |e| format!("{ctx}: unexpected error {e:?}")
}

pub enum DbH {
    Plain(Database),
    Single(Box<SingleWriterTxDatabase>),
    Opt(OptimisticTxDatabase),
}

impl DbH {
    pub fn inner(&self) -> &Database {
        match self {
            DbH::Plain(d) => d,
            DbH::Single(d) => d.inner(),
            DbH::Opt(d) => d.inner(),
        }
    }
}

#[derive(Clone)]
pub struct KsH {
    pub ks: Keyspace,
    pub sw: Option<SingleWriterTxKeyspace>,
    pub opt: Option<OptimisticTxKeyspace>,
}

// ---- compaction filter used by C18: verdict is a pure function of the key ----
pub mod filt {
    use fjall::compaction::filter::{CompactionFilter, Context, Factory, ItemAccessor, Verdict};

    #[derive(Clone, Copy, Debug, PartialEq, Eq)]
    pub enum Class {
        Keep,
        Remove,
        Replace,
    }

    pub fn class_of(key: &[u8]) -> Class {
        let mut h: u32 = 2166136261;
        for b in key {
            h ^= u32::from(*b);
            h = h.wrapping_mul(16777619);
        }
        match h % 3 {
            0 => Class::Keep,
            1 => Class::Remove,
            _ => Class::Replace,
        }
    }

    pub fn replacement(key: &[u8]) -> Vec<u8> {
        let mut v = b"R:".to_vec();
        v.extend_from_slice(&key[..key.len().min(8)]);
        v
    }

    pub struct KeyFilter;

    impl CompactionFilter for KeyFilter {
        fn filter_item(&mut self, item: ItemAccessor<'_>, _ctx: &Context) -> fjall::compaction::filter::CompactionFilterResult {
            let key = item.key();
            Ok(match class_of(key) {
                Class::Keep => Verdict::Keep,
                Class::Remove => Verdict::Remove,
                Class::Replace => Verdict::ReplaceValue(replacement(key).into()),
            })
        }
    }

    pub struct KeyFactory;

    impl Factory for KeyFactory {
        fn name(&self) -> &str {
            "fjv-key-filter"
        }
        fn make_filter(&self, _ctx: &Context) -> Box<dyn CompactionFilter> {
            Box::new(KeyFilter)
        }
    }
}

pub fn ks_opts(c: &KsCfg) -> KeyspaceCreateOptions {
    let mut o = KeyspaceCreateOptions::default()
        .max_memtable_size(c.memtable)
        .manual_journal_persist(c.manual_persist);
    if let Some(t) = c.blob {
        o = o.with_kv_separation(Some(
            KvSeparationOptions::default().separation_threshold(t),
        ));
    }
    o = match &c.strategy {
        Strat::LeveledSmall { l0, target } => o.compaction_strategy(Arc::new(
            fjall::compaction::Leveled::default()
                .with_l0_threshold(*l0)
                .with_table_target_size(*target),
        )),
        Strat::LeveledDefault => o,
        Strat::FifoNoEvict => {
            o.compaction_strategy(Arc::new(fjall::compaction::Fifo::new(u64::MAX, None)))
        }
    };
    o
}

pub struct OpenOpts {
    pub workers: usize,
    pub lz4: bool,
}

macro_rules! build {
    ($ty:ty, $dir:expr, $cfg:expr, $oo:expr) => {{
        let mut b = <$ty>::builder($dir)
            .worker_threads_unchecked($oo.workers)
            .journal_compression(if $oo.lz4 {
                fjall::CompressionType::Lz4
            } else {
                fjall::CompressionType::None
            })
            .manual_journal_persist($cfg.db_manual_persist);
        if $cfg.filter_mask != 0 {
            let mask = $cfg.filter_mask;
            b = b.with_compaction_filter_factories(Arc::new(move |name: &str| {
                let i = crate::case::NAMES.iter().position(|n| *n == name)?;
                if mask & (1 << i) != 0 {
                    Some(Arc::new(filt::KeyFactory) as Arc<dyn fjall::compaction::filter::Factory>)
                } else {
                    None
                }
            }));
        }
        b.open()
    }};
}

pub fn open_db(dir: &Path, cfg: &Cfg, oo: &OpenOpts) -> Result<DbH, fjall::Error> {
    fjall::verif::JOURNAL_POS_SCALE.store(cfg.pos_scale.max(1), std::sync::atomic::Ordering::SeqCst);
    Ok(match cfg.flavor {
        Flavor::Plain => DbH::Plain(build!(Database, dir, cfg, oo)?),
        Flavor::SingleWriter => DbH::Single(Box::new(build!(SingleWriterTxDatabase, dir, cfg, oo)?)),
        Flavor::Optimistic => DbH::Opt(build!(OptimisticTxDatabase, dir, cfg, oo)?),
    })
}

pub fn open_ks(db: &DbH, name: &str, c: &KsCfg) -> Result<KsH, fjall::Error> {
    Ok(match db {
        DbH::Plain(d) => KsH {
            ks: d.keyspace(name, || ks_opts(c))?,
            sw: None,
            opt: None,
        },
        DbH::Single(d) => {
            let k = d.keyspace(name, || ks_opts(c))?;
            KsH {
                ks: k.inner().clone(),
                sw: Some(k),
                opt: None,
            }
        }
        DbH::Opt(d) => {
            let k = d.keyspace(name, || ks_opts(c))?;
            KsH {
                ks: k.inner().clone(),
                sw: None,
                opt: Some(k),
            }
        }
    })
}

pub fn guard_item(acc: u8, g: Guard) -> R<Item> {
    Ok(match acc % 5 {
        0 => {
            let (k, v) = g.into_inner().map_err(es("guard.into_inner"))?;
            Item::Kv(k.to_vec(), v.to_vec())
        }
        1 => Item::K(g.key().map_err(es("guard.key"))?.to_vec()),
        2 => Item::V(g.value().map_err(es("guard.value"))?.to_vec()),
        3 => Item::Size(g.size().map_err(es("guard.size"))?),
        _ => {
            let (k, v) = g
                .into_inner_if(|k| pred_key(k))
                .map_err(es("guard.into_inner_if"))?;
            Item::KvIf(k.to_vec(), v.map(|v| v.to_vec()))
        }
    })
}

pub fn guard_kv(g: Option<Guard>) -> R<Option<(Vec<u8>, Vec<u8>)>> {
    match g {
        None => Ok(None),
        Some(g) => {
            let (k, v) = g.into_inner().map_err(es("guard.into_inner"))?;
            Ok(Some((k.to_vec(), v.to_vec())))
        }
    }
}

pub fn walk_iter(mut it: Iter, walk: &Walk, acc: u8) -> R<Vec<Item>> {
    let mut out = vec![];
    let mut i = 0usize;
    loop {
        let back = match walk {
            Walk::Fwd => false,
            Walk::Rev => true,
            Walk::Ends(p) => {
                if p.is_empty() {
                    false
                } else {
                    p[i % p.len()]
                }
            }
        };
        i += 1;
        let g = if back { it.next_back() } else { it.next() };
        match g {
            None => break,
            Some(g) => out.push(guard_item(acc, g)?),
        }
        if out.len() > 1_000_000 {
            return Err("iterator did not terminate".into());
        }
    }
    // exhausted iterator must stay exhausted from both ends
    if it.next().is_some() || it.next_back().is_some() {
        return Err("iterator yielded an item after returning None".into());
    }
    Ok(out)
}

pub fn ks_iter(ks: &Keyspace, sel: &Sel) -> Iter {
    match sel {
        Sel::All => ks.iter(),
        Sel::Range(lo, hi) => ks.range::<Vec<u8>, _>(norm_range(lo, hi)),
        Sel::Prefix(p) => ks.prefix(p.mat()),
    }
}

pub fn rd_iter<T: Readable>(rd: &T, ks: &Keyspace, sel: &Sel) -> Iter {
    match sel {
        Sel::All => rd.iter(ks),
        Sel::Range(lo, hi) => rd.range::<Vec<u8>, _>(ks, norm_range(lo, hi)),
        Sel::Prefix(p) => rd.prefix(ks, p.mat()),
    }
}

/// Evaluate a read directly on the keyspace handle
pub fn read_ks(ks: &Keyspace, r: &Read) -> R<ReadRes> {
    Ok(match r {
        Read::Get(k) => ReadRes::Val(ks.get(k.mat()).map_err(es("get"))?.map(|v| v.to_vec())),
        Read::Contains(k) => ReadRes::Bool(ks.contains_key(k.mat()).map_err(es("contains_key"))?),
        Read::SizeOf(k) => ReadRes::Size(ks.size_of(k.mat()).map_err(es("size_of"))?),
        Read::First => ReadRes::Kv(guard_kv(ks.first_key_value())?),
        Read::Last => ReadRes::Kv(guard_kv(ks.last_key_value())?),
        Read::Len => ReadRes::Len(ks.len().map_err(es("len"))?),
        Read::IsEmpty => ReadRes::Bool(ks.is_empty().map_err(es("is_empty"))?),
        Read::Scan(sel, walk, acc) => ReadRes::Items(walk_iter(ks_iter(ks, sel), walk, *acc)?),
    })
}

/// Evaluate a read through a `Readable` (snapshot, read tx, write tx)
pub fn read_rd<T: Readable>(rd: &T, ks: &Keyspace, r: &Read) -> R<ReadRes> {
    Ok(match r {
        Read::Get(k) => ReadRes::Val(rd.get(ks, k.mat()).map_err(es("rd.get"))?.map(|v| v.to_vec())),
        Read::Contains(k) => ReadRes::Bool(rd.contains_key(ks, k.mat()).map_err(es("rd.contains_key"))?),
        Read::SizeOf(k) => ReadRes::Size(rd.size_of(ks, k.mat()).map_err(es("rd.size_of"))?),
        Read::First => ReadRes::Kv(guard_kv(rd.first_key_value(ks))?),
        Read::Last => ReadRes::Kv(guard_kv(rd.last_key_value(ks))?),
        Read::Len => ReadRes::Len(rd.len(ks).map_err(es("rd.len"))?),
        Read::IsEmpty => ReadRes::Bool(rd.is_empty(ks).map_err(es("rd.is_empty"))?),
        Read::Scan(sel, walk, acc) => ReadRes::Items(walk_iter(rd_iter(rd, ks, sel), walk, *acc)?),
    })
}

pub fn mk(acc: u8, k: Vec<u8>, v: Vec<u8>) -> Item {
    mk_item(acc, k, v)
}
