//! C17: one live instance per directory; only compatible directories open.

use crate::driver::*;
use crate::e2torn::{restore_dir, snapshot_dir, FileImg};
use fjall::{Database, Keyspace, KeyspaceCreateOptions, OptimisticTxDatabase, SingleWriterTxDatabase};
use proptest::collection::vec;
use proptest::prelude::*;
use proptest::test_runner::{TestCaseError, TestError};
use serde::{Deserialize, Serialize};
use serde_json::json;
use std::collections::{BTreeMap, BTreeSet};
use std::path::Path;

#[derive(Clone, Debug, Serialize, Deserialize, PartialEq, Eq, Hash)]
pub enum Act {
    /// try to open (flavour 0 plain, 1 single writer, 2 optimistic)
    Open(u8),
    CloneDb(u16),
    OpenKs(u16, u8),
    CloneKs(u16),
    DropDb(u16, bool),
    DropKs(u16, bool),
    Write(u16, u8, u8),
    Rotate(u16),
}

#[derive(Clone, Debug, Serialize, Deserialize, PartialEq, Eq, Hash)]
pub struct LockCase {
    pub workers: u8,
    pub acts: Vec<Act>,
}

#[derive(Clone, Debug, Serialize, Deserialize, PartialEq, Eq, Hash)]
pub struct MarkerCase {
    /// false: the directory has no lock file (as directories written by other major versions)
    #[serde(default = "yes")]
    pub lock_present: bool,
    /// None = marker file removed
    pub marker: Option<Vec<u8>>,
    pub evicted_first_journal: bool,
    pub keys: u8,
    pub flushed: bool,
}

#[derive(Clone, Debug, Serialize, Deserialize, PartialEq, Eq, Hash)]
pub enum C17Case {
    Lock(LockCase),
    Marker(MarkerCase),
}

fn yes() -> bool {
    true
}

enum DbAny {
    P(Database),
    S(SingleWriterTxDatabase),
    O(OptimisticTxDatabase),
}
impl DbAny {
    fn inner(&self) -> &Database {
        match self {
            DbAny::P(d) => d,
            DbAny::S(d) => d.inner(),
            DbAny::O(d) => d.inner(),
        }
    }
    fn dup(&self) -> DbAny {
        match self {
            DbAny::P(d) => DbAny::P(d.clone()),
            DbAny::S(d) => DbAny::S(d.clone()),
            DbAny::O(d) => DbAny::O(d.clone()),
        }
    }
}

fn open_any(dir: &Path, fl: u8, workers: u8) -> Result<DbAny, fjall::Error> {
    let w = usize::from(workers.max(1));
    Ok(match fl % 3 {
        0 => DbAny::P(Database::builder(dir).worker_threads(w).open()?),
        1 => DbAny::S(SingleWriterTxDatabase::builder(dir).worker_threads(w).open()?),
        _ => DbAny::O(OptimisticTxDatabase::builder(dir).worker_threads(w).open()?),
    })
}

fn worker_threads_alive() -> usize {
    let mut n = 0;
    if let Ok(rd) = std::fs::read_dir("/proc/self/task") {
        for e in rd.flatten() {
            if let Ok(c) = std::fs::read_to_string(e.path().join("comm")) {
                if c.trim() == "fjall:worker" {
                    n += 1;
                }
            }
        }
    }
    n
}

fn tree_sig(dir: &Path) -> Vec<(String, u64, u64)> {
    snapshot_dir(dir)
        .into_iter()
        .filter(|f| f.rel != Path::new("lock"))
        .map(|f| (f.rel.display().to_string(), f.len, crate::case::case_hash(&f.data)))
        .collect()
}

const NAMES: [&str; 3] = ["a", "ab", "b"];

#[derive(Default)]
pub struct LockStats {
    pub refused: u64,
    pub refused_only_keyspace_alive: u64,
    pub refused_with_queued_work: u64,
    pub compared: u64,
    pub reopened: u64,
    pub drops_on_other_thread: u64,
    pub last_db_drop_with_sealed_journals: u64,
    pub not_quiescent: u64,
}

pub fn run_lock(dir: &Path, c: &LockCase, st: &mut LockStats) -> Result<(), String> {
    let _ = std::fs::remove_dir_all(dir);
    // journal rotation after ~1 KB (unmodified rotation code), so that sealed journals exist at drop time
    fjall::verif::JOURNAL_POS_SCALE.store(64_000, std::sync::atomic::Ordering::SeqCst);
    if std::env::var("FJV_TRACE").is_ok() && worker_threads_alive() > 0 {
        eprintln!("TRACE: {} worker threads alive BEFORE case {}", worker_threads_alive(), serde_json::to_string(c).unwrap());
    }
    let mut dbs: Vec<DbAny> = vec![];
    let mut kss: Vec<Keyspace> = vec![];
    let mut model: BTreeMap<String, BTreeMap<Vec<u8>, Vec<u8>>> = BTreeMap::new();
    let mut bg_dirty = false;
    let mut rotations = 0;
    let r = std::panic::catch_unwind(std::panic::AssertUnwindSafe(|| -> Result<(), String> {
        let mut acts = c.acts.clone();
        acts.push(Act::Open(0)); // final: after everything is dropped below, open must succeed
        let n_acts = acts.len();
        for (step, a) in acts.iter().enumerate() {
            if step + 1 == n_acts {
                // drop every handle (in generated order they may already be gone)
                kss.clear();
                dbs.clear();
            }
            match a {
                Act::Open(fl) => {
                    let live = !dbs.is_empty() || !kss.is_empty();
                    if live {
                        // quiesce first, so that the directory comparison is meaningful: no queued worker
                        // message, no queued flush, no running compaction, no sealed memtable, and the
                        // directory listing stable over consecutive samples
                        let mut compare = true;
                        if let Some(d) = dbs.first() {
                            let t0 = std::time::Instant::now();
                            let mut stable = 0;
                            let mut last_sig = tree_sig(dir);
                            while stable < 4 && t0.elapsed().as_millis() < 5000 {
                                std::thread::sleep(std::time::Duration::from_millis(4));
                                let idle = d.inner().verif_pending() == 0
                                    && d.inner().outstanding_flushes() == 0
                                    && d.inner().active_compactions() == 0
                                    && kss.iter().all(|k| k.sealed_memtable_count() == 0);
                                let sig = tree_sig(dir);
                                if idle && sig == last_sig {
                                    stable += 1;
                                } else {
                                    stable = 0;
                                }
                                last_sig = sig;
                            }
                            if stable < 4 {
                                compare = false;
                                st.not_quiescent += 1;
                            }
                            bg_dirty = false;
                        } else if bg_dirty {
                            compare = false;
                        }
                        let before = if compare { Some(tree_sig(dir)) } else { None };
                        let queued = dbs.first().map_or(0, |d| d.inner().outstanding_flushes());
                        match open_any(dir, *fl, c.workers) {
                            Err(fjall::Error::Locked) => {}
                            Err(e) => return Err(format!("step {step}: second open while a handle is alive returned {e:?}, expected Locked")),
                            Ok(_) => return Err(format!("step {step}: second open succeeded while {} database and {} keyspace handles are alive", dbs.len(), kss.len())),
                        }
                        st.refused += 1;
                        if dbs.is_empty() {
                            st.refused_only_keyspace_alive += 1;
                        }
                        if queued > 0 {
                            st.refused_with_queued_work += 1;
                        }
                        if let Some(b) = before {
                            let after = tree_sig(dir);
                            st.compared += 1;
                            if after != b {
                                let d: Vec<String> = after.iter().filter(|x| !b.contains(x)).map(|x| x.0.clone()).chain(b.iter().filter(|x| !after.contains(x)).map(|x| format!("-{}", x.0))).collect();
                                return Err(format!("step {step}: the refused open changed the directory: {d:?}"));
                            }
                        }
                    } else {
                        // nobody alive: background threads must be gone and open must succeed
                        // the journal must already be complete when the last drop has returned
                        let jsig = |dir: &Path| -> Vec<(String, u64, u64)> { tree_sig(dir).into_iter().filter(|x| x.0.ends_with(".jnl")).collect() };
                        let j1 = if dir.exists() { jsig(dir) } else { vec![] };
                        // /proc/<pid>/task listings are not atomic while threads exit: demand several
                        // consecutive empty readings, within a generous bound
                        let t0 = std::time::Instant::now();
                        let mut zeros = 0;
                        while zeros < 5 && t0.elapsed().as_millis() < 5_000 {
                            if worker_threads_alive() == 0 {
                                zeros += 1;
                            } else {
                                zeros = 0;
                            }
                            std::thread::sleep(std::time::Duration::from_millis(1));
                        }
                        let alive = if zeros >= 5 { 0 } else { worker_threads_alive() };
                        let j2 = if dir.exists() { jsig(dir) } else { vec![] };
                        if j1 != j2 {
                            return Err(format!("step {step}: a journal file changed after the last handle had been dropped (journal not flushed/synced by the time drop returned)"));
                        }
                        if alive > 0 {
                            let mut info = String::new();
                            if let Ok(rd) = std::fs::read_dir("/proc/self/task") {
                                for e in rd.flatten() {
                                    if std::fs::read_to_string(e.path().join("comm")).map_or(false, |c| c.trim() == "fjall:worker") {
                                        let stat = std::fs::read_to_string(e.path().join("stat")).unwrap_or_default();
                                        let state = stat.split(' ').nth(2).unwrap_or("?").to_string();
                                        let wchan = std::fs::read_to_string(e.path().join("wchan")).unwrap_or_default();
                                        let stack = std::fs::read_to_string(e.path().join("stack")).unwrap_or_default();
                                        info.push_str(&format!("[tid {} state {state} wchan {wchan} stack {}]", e.file_name().to_string_lossy(), stack.replace('\n', " | ")));
                                    }
                                }
                            }
                            return Err(format!("step {step}: {alive} fjall:worker threads still alive after the last handle was dropped {info}"));
                        }
                        let d = open_any(dir, *fl, c.workers).map_err(|e| format!("step {step}: open after the last handle was dropped failed: {e:?}"))?;
                        st.reopened += 1;
                        // content = everything written
                        let mut names: Vec<String> = d.inner().list_keyspace_names().iter().map(|x| x.to_string()).collect();
                        names.sort();
                        let want: Vec<String> = model.keys().cloned().collect();
                        if names != want {
                            return Err(format!("step {step}: keyspaces after reopen {names:?}, expected {want:?}"));
                        }
                        for (n, m) in &model {
                            let ks = d.inner().keyspace(n, KeyspaceCreateOptions::default).map_err(|e| format!("{e:?}"))?;
                            let got: BTreeMap<Vec<u8>, Vec<u8>> = ks.iter().map(|g| g.into_inner().map(|(k, v)| (k.to_vec(), v.to_vec()))).collect::<Result<_, _>>().map_err(|e| format!("{e:?}"))?;
                            if &got != m {
                                return Err(format!("step {step}: content of {n} after reopen differs from what was written ({} vs {} items)", got.len(), m.len()));
                            }
                        }
                        dbs.push(d);
                        rotations = 0;
                    }
                }
                Act::CloneDb(i) => {
                    if let Some(j) = crate::case::idx(*i, dbs.len()) {
                        if dbs.len() < 4 {
                            let d = dbs[j].dup();
                            dbs.push(d);
                        }
                    }
                }
                Act::OpenKs(i, n) => {
                    if let Some(j) = crate::case::idx(*i, dbs.len()) {
                        if kss.len() < 5 {
                            let name = NAMES[usize::from(*n) % NAMES.len()];
                            let manual = *n % 3 == 2;
                            // one keyspace flushes constantly (tiny memtable), one lags (default memtable):
                            // the lagging one pins sealed journals
                            let mt = if *n % 3 == 1 { 64 * 1024 * 1024 } else { 1024 };
                            let ks = dbs[j].inner().keyspace(name, || KeyspaceCreateOptions::default().max_memtable_size(mt).manual_journal_persist(manual)).map_err(|e| format!("keyspace: {e:?}"))?;
                            model.entry(name.to_string()).or_default();
                            kss.push(ks);
                        }
                    }
                }
                Act::CloneKs(i) => {
                    if let Some(j) = crate::case::idx(*i, kss.len()) {
                        if kss.len() < 5 {
                            let k = kss[j].clone();
                            kss.push(k);
                        }
                    }
                }
                Act::DropDb(i, other_thread) => {
                    if let Some(j) = crate::case::idx(*i, dbs.len()) {
                        let d = dbs.remove(j);
                        if dbs.is_empty() && d.inner().journal_count() > 1 {
                            st.last_db_drop_with_sealed_journals += 1;
                        }
                        if *other_thread {
                            st.drops_on_other_thread += 1;
                            std::thread::spawn(move || drop(d)).join().ok();
                        } else {
                            drop(d);
                        }
                    }
                }
                Act::DropKs(i, other_thread) => {
                    if let Some(j) = crate::case::idx(*i, kss.len()) {
                        let k = kss.remove(j);
                        if *other_thread {
                            st.drops_on_other_thread += 1;
                            std::thread::spawn(move || drop(k)).join().ok();
                        } else {
                            drop(k);
                        }
                    }
                }
                Act::Write(i, k, v) => {
                    if let Some(j) = crate::case::idx(*i, kss.len()) {
                        let ks = &kss[j];
                        // without a live database there are no workers: avoid back-pressure stalls
                        if dbs.is_empty() && ks.sealed_memtable_count() >= 2 {
                            continue;
                        }
                        let key = vec![b'k', *k % 8];
                        let val = vec![*v; 1 + usize::from(*v) * 9];
                        ks.insert(key.clone(), val.clone()).map_err(|e| format!("insert: {e:?}"))?;
                        model.get_mut(&ks.name().to_string()).unwrap().insert(key, val);
                    }
                }
                Act::Rotate(i) => {
                    if let Some(j) = crate::case::idx(*i, kss.len()) {
                        // the doc-hidden maintenance API is only driven while a database handle exists
                        if rotations < 3 && !dbs.is_empty() {
                            kss[j].rotate_memtable().map_err(|e| format!("rotate: {e:?}"))?;
                            rotations += 1;
                            bg_dirty = true;
                        }
                    }
                }
            }
        }
        Ok(())
    }));
    kss.clear();
    dbs.clear();
    let res = match r {
        Ok(x) => x,
        Err(p) => Err(format!("panic: {}", p.downcast_ref::<String>().cloned().or_else(|| p.downcast_ref::<&str>().map(|s| (*s).to_string())).unwrap_or_default())),
    };
    let _ = std::fs::remove_dir_all(dir);
    res
}

/// a populated, cleanly closed directory image (built once per shard and variant)
fn base_image(dir: &Path, keys: u8, flushed: bool, evicted: bool) -> Vec<FileImg> {
    let _ = std::fs::remove_dir_all(dir);
    {
        let db = Database::builder(dir).worker_threads_unchecked(0).open().unwrap();
        let ks = db.keyspace("a", KeyspaceCreateOptions::default).unwrap();
        for i in 0..keys {
            ks.insert(vec![b'k', i], vec![i; 10]).unwrap();
        }
        if flushed {
            ks.rotate_memtable().unwrap();
            while db.verif_worker_step().unwrap() {}
        }
        ks.insert("last", "x").unwrap();
    }
    if evicted {
        // what a directory looks like after the first journal was evicted: the active journal has a higher id
        std::fs::rename(dir.join("0.jnl"), dir.join("3.jnl")).unwrap();
    }
    snapshot_dir(dir)
}

pub fn run_marker(dir: &Path, c: &MarkerCase, cache: &mut BTreeMap<(u8, bool, bool), Vec<FileImg>>) -> Result<bool, String> {
    let key = (c.keys % 4, c.flushed, c.evicted_first_journal);
    if !cache.contains_key(&key) {
        let img = base_image(dir, key.0, key.1, key.2);
        cache.insert(key, img);
    }
    let mut img = cache[&key].clone();
    let vi = img.iter().position(|f| f.rel == Path::new("version")).expect("version marker in image");
    match &c.marker {
        Some(b) => {
            let mut data = b.clone();
            // FileImg stores data without trailing zeros
            let len = data.len() as u64;
            while data.last() == Some(&0) {
                data.pop();
            }
            img[vi].data = data;
            img[vi].len = len;
        }
        None => {
            img.remove(vi);
        }
    }
    let compatible0 = c.marker.as_ref().map_or(false, |b| b.len() >= 4 && &b[0..4] == b"FJL\x03");
    // a directory written by this major version always has its lock file
    if !c.lock_present && !compatible0 {
        img.retain(|f| f.rel != Path::new("lock"));
    }
    restore_dir(dir, &img);
    // the lock file itself is part of the comparison when the open must be refused
    let full_sig = |dir: &Path| -> Vec<(String, u64)> { snapshot_dir(dir).into_iter().map(|f| (f.rel.display().to_string(), f.len)).collect() };
    let before_full = full_sig(dir);
    let before = tree_sig(dir);
    let compatible = c.marker.as_ref().map_or(false, |b| b.len() >= 4 && &b[0..4] == b"FJL\x03");
    // the marker exactly as this major version writes it must be accepted; a current-version marker
    // followed by further bytes is neither "absent, unknown or from another major version" nor the
    // written form: accepting or refusing it are both within the statement
    let must_open = c.marker.as_deref() == Some(b"FJL\x03".as_slice());
    let r = std::panic::catch_unwind(std::panic::AssertUnwindSafe(|| Database::builder(dir).worker_threads_unchecked(0).open()));
    let res = match r {
        Err(_) => Err("open panicked".to_string()),
        Ok(Ok(db)) => {
            if compatible {
                let ks = db.keyspace("a", KeyspaceCreateOptions::default).map_err(|e| format!("{e:?}"))?;
                let n = ks.len().map_err(|e| format!("{e:?}"))?;
                if n != usize::from(key.0) + 1 {
                    Err(format!("compatible marker: opened, but {n} items instead of {}", usize::from(key.0) + 1))
                } else {
                    Ok(())
                }
            } else {
                Err(format!("directory with version marker {:?} was opened (must be refused)", c.marker.as_ref().map(|b| b.iter().take(12).copied().collect::<Vec<u8>>())))
            }
        }
        Ok(Err(e)) => {
            if must_open {
                Err(format!("compatible version marker refused: {e:?}"))
            } else {
                let after = tree_sig(dir);
                let after_full = full_sig(dir);
                if after_full != before_full {
                    let d: Vec<String> = after_full.iter().filter(|x| !before_full.contains(x)).map(|x| x.0.clone()).collect();
                    Err(format!("refused open ({e:?}) created or resized files: {d:?}"))
                } else if after != before {
                    let d: Vec<String> = after.iter().filter(|x| !before.contains(x)).map(|x| x.0.clone()).chain(before.iter().filter(|x| !after.contains(x)).map(|x| format!("-{}", x.0))).collect();
                    Err(format!("refused open ({e:?}) modified the directory: {d:?}"))
                } else {
                    Ok(())
                }
            }
        }
    };
    let _ = std::fs::remove_dir_all(dir);
    res.map(|()| true)
}

fn act_s() -> BoxedStrategy<Act> {
    prop_oneof![
        6 => (0u8..3).prop_map(Act::Open),
        2 => any::<u16>().prop_map(Act::CloneDb),
        4 => (any::<u16>(), 0u8..3).prop_map(|(i, n)| Act::OpenKs(i, n)),
        2 => any::<u16>().prop_map(Act::CloneKs),
        4 => (any::<u16>(), any::<bool>()).prop_map(|(i, t)| Act::DropDb(i, t)),
        4 => (any::<u16>(), any::<bool>()).prop_map(|(i, t)| Act::DropKs(i, t)),
        14 => (any::<u16>(), any::<u8>(), any::<u8>()).prop_map(|(i, k, v)| Act::Write(i, k, v)),
        2 => any::<u16>().prop_map(Act::Rotate),
    ]
    .boxed()
}

pub fn lock_s() -> BoxedStrategy<C17Case> {
    (1u8..4, vec(act_s(), 1..22)).prop_map(|(workers, acts)| C17Case::Lock(LockCase { workers, acts })).boxed()
}

pub fn marker_s() -> BoxedStrategy<C17Case> {
    let bytes = prop_oneof![
        3 => vec(any::<u8>(), 0..8),
        // tails biased to version-like bytes: a reader that looks for the version anywhere but in
        // byte 3 (last byte, any byte) must not find a "3" there
        5 => (0u8..8, vec(prop_oneof![3 => 0u8..5, 1 => any::<u8>()], 0..4)).prop_map(|(v, tail)| {
            let mut b = b"FJL".to_vec();
            b.push(v);
            b.extend(tail);
            b
        }),
        2 => (0usize..4).prop_map(|n| b"FJL\x03"[..n].to_vec()),
        1 => Just(b"FJL\x03".to_vec()),
        1 => Just(b"fjl\x03".to_vec()),
        1 => (any::<u8>(), 0usize..4).prop_map(|(x, i)| {
            let mut b = b"FJL\x03".to_vec();
            b[i] ^= x | 1;
            b
        }),
    ];
    (prop::option::weighted(0.85, bytes), any::<bool>(), 0u8..4, any::<bool>(), prop::bool::weighted(0.7))
        .prop_map(|(marker, evicted_first_journal, keys, flushed, lock_present)| C17Case::Marker(MarkerCase { lock_present, marker, evicted_first_journal, keys, flushed }))
        .boxed()
}

pub fn shard_c17(seed: u64, shard: u32, cases: u32) -> ShardOut {
    silence_panics();
    let base = scratch_root().join(format!("c17s{shard}"));
    std::fs::create_dir_all(&base).ok();
    let dir = base.join("db");
    let mut o = ShardOut::default();
    // part 1: lock sequences (each refused open costs ~200 ms)
    let lock_cases = cases / 8 + 1;
    let mut st = LockStats::default();
    {
        let mut r = runner(lock_cases, seed_bytes(seed, shard, "C17-lock"));
        let out = std::cell::RefCell::new((&mut o, &mut st));
        let failed = std::cell::Cell::new(false);
        let first: std::cell::RefCell<Option<(C17Case, String)>> = std::cell::RefCell::new(None);
        let res = r.run(&lock_s(), |c| {
            let C17Case::Lock(lc) = &c else { unreachable!() };
            phase(&format!("C17 lock case {}", serde_json::to_string(&c).unwrap_or_default()));
            let mut g = out.borrow_mut();
            let mut tmp = LockStats::default();
            let rr = run_lock(&dir, lc, if failed.get() { &mut tmp } else { &mut *g.1 });
            if !failed.get() {
                g.0.evaluations += 1;
                let before = (g.1.refused_only_keyspace_alive, g.1.refused);
                let _ = before;
                if g.1.refused_only_keyspace_alive > 0 || g.1.refused > 0 {
                    g.0.nt_hashes.push(crate::case::case_hash(&c));
                    if g.0.samples.is_empty() {
                        g.0.samples.push(serde_json::to_value(&c).unwrap());
                    }
                }
            }
            match rr {
                Ok(()) => Ok(()),
                Err(e) => {
                    if !failed.get() {
                        *first.borrow_mut() = Some((c.clone(), e.clone()));
                    }
                    failed.set(true);
                    Err(TestCaseError::fail(e))
                }
            }
        });
        if let Some((c0, e0)) = first.borrow().clone() {
            eprintln!("first failing lock case: {} => {e0}", serde_json::to_string(&c0).unwrap());
        }
        if let Err(TestError::Fail(reason, minimal)) = res {
            let C17Case::Lock(lc) = &minimal else { unreachable!() };
            let msg = run_lock(&dir, lc, &mut LockStats::default()).err().unwrap_or_else(|| reason.to_string());
            o.failure = Some(FailureOut { case: json!({"property": "C17", "case": minimal, "failure": {"msg": msg}}), msg, step: 0, original_msg: String::new() });
        }
    }
    o.stats.insert("lock_sequences".into(), u64::from(lock_cases));
    o.stats.insert("refused_opens".into(), st.refused);
    o.stats.insert("refused_opens_only_keyspace_handle_alive".into(), st.refused_only_keyspace_alive);
    o.stats.insert("refused_opens_with_queued_flushes".into(), st.refused_with_queued_work);
    o.stats.insert("directory_comparisons".into(), st.compared);
    o.stats.insert("successful_reopens_after_last_drop".into(), st.reopened);
    o.stats.insert("handle_drops_on_other_thread".into(), st.drops_on_other_thread);
    o.stats.insert("last_database_drop_with_sealed_journals".into(), st.last_db_drop_with_sealed_journals);
    o.stats.insert("comparisons_skipped_not_quiescent".into(), st.not_quiescent);
    // part 2: version marker contents
    if o.failure.is_none() {
        let mut r = runner(cases, seed_bytes(seed, shard, "C17-marker"));
        let mut cache = BTreeMap::new();
        let out = std::cell::RefCell::new((&mut o, &mut cache));
        let failed = std::cell::Cell::new(false);
        let res = r.run(&marker_s(), |c| {
            let C17Case::Marker(mc) = &c else { unreachable!() };
            let mut g = out.borrow_mut();
            let rr = run_marker(&dir, mc, &mut *g.1);
            if !failed.get() {
                g.0.evaluations += 1;
                let k = match &mc.marker {
                    None => "marker_absent",
                    Some(b) if b.len() >= 4 && &b[0..4] == b"FJL\x03" => "marker_compatible",
                    Some(b) if b.len() >= 3 && &b[0..3] == b"FJL" => "marker_other_version",
                    Some(_) => "marker_garbage",
                };
                *g.0.stats.entry(k.into()).or_insert(0) += 1;
                g.0.nt_hashes.push(crate::case::case_hash(&c));
                if g.0.samples.len() < 2 {
                    g.0.samples.push(serde_json::to_value(&c).unwrap());
                }
            }
            match rr {
                Ok(_) => Ok(()),
                Err(e) => {
                    failed.set(true);
                    Err(TestCaseError::fail(e))
                }
            }
        });
        if let Err(TestError::Fail(reason, minimal)) = res {
            let C17Case::Marker(mc) = &minimal else { unreachable!() };
            let msg = run_marker(&dir, mc, &mut BTreeMap::new()).err().unwrap_or_else(|| reason.to_string());
            o.failure = Some(FailureOut { case: json!({"property": "C17", "case": minimal, "failure": {"msg": msg}}), msg, step: 0, original_msg: String::new() });
        }
    }
    let _ = std::fs::remove_dir_all(&base);
    o
}

pub fn replay_c17(v: &serde_json::Value) -> Option<String> {
    silence_panics();
    let c: C17Case = serde_json::from_value(v.get("case")?.clone()).ok()?;
    let base = scratch_root().join("c17replay");
    std::fs::create_dir_all(&base).ok();
    let dir = base.join("db");
    let r = match &c {
        C17Case::Lock(l) => run_lock(&dir, l, &mut LockStats::default()),
        C17Case::Marker(m) => run_marker(&dir, m, &mut BTreeMap::new()).map(|_| ()),
    };
    let _ = std::fs::remove_dir_all(&base);
    r.err()
}

pub fn check_c17(tier: &str, seed: u64) -> i32 {
    let t0 = std::time::Instant::now();
    clear_old_replays("C17");
    let findings = load_findings();
    let mut violations = vec![];
    let mut corpus_n = 0;
    for p in corpus_files("C17") {
        if let Ok(v) = std::fs::read_to_string(&p).map_err(|e| e.to_string()).and_then(|s| serde_json::from_str::<serde_json::Value>(&s).map_err(|e| e.to_string())) {
            corpus_n += 1;
            if let Some(msg) = replay_c17(&v) {
                println!("corpus case {} fails: {msg}", p.display());
                violations.push(p.clone());
            }
        }
    }
    let mut known = 0;
    for f in findings.iter().filter(|f| f.property == "C17" && f.status == "known") {
        if let Some(rp) = &f.replay {
            if let Ok(v) = std::fs::read_to_string(Path::new(VERIF).join(rp)).map_err(|e| e.to_string()).and_then(|s| serde_json::from_str::<serde_json::Value>(&s).map_err(|e| e.to_string())) {
                if replay_c17(&v).is_some() {
                    println!("KNOWN-FINDING: property=C17 {} [{}]", f.what, f.id);
                    known += 1;
                }
            }
        }
    }
    let total: u32 = if tier == "thorough" { 160_000 } else { 6400 };
    let m = match run_shards("C17", tier, seed, 16, total.div_ceil(16), &BTreeSet::new(), std::time::Duration::from_secs(if tier == "thorough" { 3 * 3600 } else { 900 })) {
        Ok(m) => m,
        Err(e) => {
            eprintln!("engine failure: {e}");
            return 2;
        }
    };
    for f in &m.failures {
        let p = write_replay_raw("C17", &f.case);
        println!("failure: {}", f.msg);
        violations.push(p);
    }
    let wall = t0.elapsed().as_secs_f64();
    write_evidence(
        "C17",
        tier,
        seed,
        "exploration",
        &m,
        "two generated families. LOCK: sequences of open (all three flavours, 1-3 real worker threads), clone, keyspace handles, handle drops on this or another thread, writes and rotations (queued flush work), with an open attempt at any step: while any Database / transactional database / Keyspace handle is alive the attempt must return Error::Locked and (when the live instance is quiescent) leave names, sizes and content hashes of every file except the lock file unchanged; after the last drop no thread named fjall:worker remains, open succeeds and shows everything written. MARKER: arbitrary bytes (biased to near-misses: FJL+version byte+tail, truncated, case-changed, one byte off, absent) written as the version marker of a populated, cleanly closed directory (with/without flushed tables, with/without an evicted first journal): the marker FJL\\x03 as written by this version must open; any marker whose first four bytes are not FJL\\x03 (absent, other or unknown version, garbage, version-like bytes in a tail) must be refused with the directory unchanged; FJL\\x03 followed by further bytes may be accepted (then the content must be right) or refused (then nothing may change). non-trivial = lock sequence with >= 1 refused open, or any marker case on a populated directory; distinct by case hash",
        &["the directory comparison around a refused open is made only while the live instance is quiescent", "an empty directory without marker is a legitimate create and not part of the absent-marker clause"],
        wall,
        violations.len(),
        json!({"corpus_cases_replayed": corpus_n, "known_findings_reproduced": known}),
    );
    println!("C17: {} cases, {} distinct non-trivial, {} violations, {:.1}s", m.evaluations, m.nt.len(), violations.len(), wall);
    if !violations.is_empty() {
        for p in &violations {
            println!("VIOLATION property=C17 replay={}", p.display());
        }
        return 1;
    }
    crate::driver::exit_code_for_inconclusive(&m)
}
