//! C09: durability of persist(SyncData|SyncAll), journal rotation and drop under a power-loss
//! adversary (all journal bytes written after the file's last successful fsync/fdatasync are
//! lost), and persist(Buffer) under manual journal persist with a process crash.

use crate::case::*;
use crate::driver::*;
use crate::e2::*;
use crate::e2drv::*;
use crate::gen::case_s;
use crate::model::State;
use crate::real::{open_db, OpenOpts};
use proptest::strategy::{Strategy, ValueTree};
use serde_json::json;
use std::collections::BTreeMap;
use std::path::Path;

#[derive(Default, Clone, Debug)]
pub struct JFile {
    pub len: i64,
    pub synced_len: i64,
    pub unsynced: Vec<(i64, i64)>,
    pub ever_synced: bool,
}

/// Book-keeping over the interposer log: which journal bytes are not yet synced.
pub fn journal_sync_state(log: &[LogLine], upto: usize) -> BTreeMap<String, JFile> {
    let mut m: BTreeMap<String, JFile> = BTreeMap::new();
    for l in log.iter().take_while(|l| l.seq < upto) {
        if !is_jnl(&l.path) {
            continue;
        }
        match l.op.as_str() {
            "open" => {
                // flags are logged in `off`
                let creat = l.off & 0o100 != 0;
                if creat && l.ret >= 0 {
                    m.entry(l.path.clone()).or_default();
                }
            }
            "write" | "KILLTORN" | "writeFAIL" => {
                if l.ret > 0 {
                    let f = m.entry(l.path.clone()).or_default();
                    f.unsynced.push((l.off, l.ret));
                    f.len = f.len.max(l.off + l.ret);
                }
            }
            "ftruncate" => {
                if l.ret == 0 {
                    let f = m.entry(l.path.clone()).or_default();
                    f.len = l.off;
                    f.unsynced.retain(|(o, _)| *o < l.off);
                }
            }
            "fsync" | "fdatasync" => {
                if l.ret == 0 {
                    let f = m.entry(l.path.clone()).or_default();
                    f.unsynced.clear();
                    f.synced_len = f.len;
                    f.ever_synced = true;
                }
            }
            "unlink" => {
                m.remove(&l.path);
            }
            _ => {}
        }
    }
    m
}

/// Applies the adversary to the directory; returns the number of bytes reverted.
pub fn apply_power_loss(log: &[LogLine]) -> u64 {
    use std::io::{Seek, SeekFrom, Write};
    let st = journal_sync_state(log, usize::MAX);
    let mut lost = 0u64;
    for (path, f) in st {
        let p = Path::new(&path);
        let Ok(meta) = p.metadata() else { continue };
        let cur = meta.len() as i64;
        let keep_len = if f.ever_synced { f.synced_len } else { 0 };
        if let Ok(mut h) = std::fs::OpenOptions::new().write(true).open(p) {
            for (off, len) in &f.unsynced {
                let end = (*off + *len).min(keep_len).min(cur);
                if end > *off {
                    let _ = h.seek(SeekFrom::Start(*off as u64));
                    let _ = h.write_all(&vec![0u8; (end - *off) as usize]);
                }
                lost += *len as u64;
            }
            if cur > keep_len {
                let _ = h.set_len(keep_len.max(0) as u64);
            }
        }
    }
    lost
}

/// is op a "sync point" when acknowledged? (everything acknowledged before it must survive power loss)
fn is_sync_op(op: &Op) -> bool {
    match op {
        Op::Persist { mode } => mode % 3 != 0,
        Op::Batch { dur, .. } => dur % 5 >= 3,
        Op::Reopen { .. } => true,
        _ => false,
    }
}

/// is op a buffer-flush point under manual persist + process crash?
fn is_flush_op(op: &Op) -> bool {
    match op {
        Op::Persist { .. } => true,
        Op::Batch { dur, .. } => dur % 5 >= 2,
        Op::Reopen { .. } => true,
        _ => false,
    }
}

fn rotation_ops(cr: &CountRun) -> Vec<usize> {
    // ops during which a new journal file was created
    let mut v = vec![];
    for i in 0..cr.states.len() - 1 {
        let (a, b) = (cr.states[i].calls, cr.states[i + 1].calls);
        if cr.log.iter().any(|l| l.seq >= a && l.seq < b && l.op == "open" && is_jnl(&l.path) && (l.off & 0o100 != 0)) {
            v.push(i);
        }
    }
    v
}

/// loose matcher: keyspace directory operations are durable immediately (stated adversary), the
/// journal content is a prefix: exists p in [lo,hi] with equal content for all keyspaces present in both
fn match_loose(got: &State, states: &[StateLine], lo: usize, hi: usize) -> Result<usize, String> {
    // Per keyspace: its content equals its content in some S_p, lo <= p <= hi (tables flushed by
    // background work survive the adversary, so different keyspaces may be at different prefixes;
    // the statement only demands that nothing acknowledged before the sync point is lost).
    let hi = hi.min(states.len() - 1);
    for (n, m) in got {
        if !(lo..=hi).any(|q| states[q].state.contains_key(n)) {
            return Err(format!("keyspace {n} recovered although it exists in no state S_{lo}..S_{hi}"));
        }
        if !(lo..=hi).any(|p| states[p].state.get(n) == Some(m)) {
            return Err(format!(
                "keyspace {n}: recovered content matches no S_p[{n}] with {lo} <= p <= {hi} (everything acknowledged before the last sync point = first {lo} operations must survive); vs S_{lo}: {}",
                states[lo].state.get(n).map_or("(absent)".to_string(), |w| {
                    let r: Vec<_> = m.iter().map(|(k, v)| (k.clone(), v.clone())).collect();
                    let w: Vec<_> = w.iter().map(|(k, v)| (k.clone(), v.clone())).collect();
                    crate::interp::diff(&r, &w)
                })
            ));
        }
    }
    for n in states[lo].state.keys().filter(|n| (lo..=hi).all(|q| states[q].state.contains_key(*n))) {
        if !got.contains_key(n) {
            return Err(format!("keyspace {n} (created before the sync point) is missing after power loss"));
        }
    }
    Ok(lo)
}

pub fn power_check(sb: &Sandbox, case: &Case, cr: &CountRun, n: i64, t: i64, manual_mode: bool) -> Result<bool, String> {
    let inj = Inject { kill: Some((n, t)), fail: None, scope_jnl: false };
    let out = run_child(sb, case, &inj, false);
    if out.timed_out {
        return Err("INCONCLUSIVE: kill run timed out".into());
    }
    if !out.killed {
        return Ok(false);
    }
    let m = parse_marker(&sb.marker);
    if m.init.is_none() {
        return Ok(false);
    }
    let rot = rotation_ops(cr);
    // lower bound: operations acknowledged before (and including) the last acknowledged sync point
    let mut lo = 0usize;
    for i in 0..m.acked.min(case.ops.len()) {
        let effective = !matches!(case.ops[i], Op::Batch { .. }) || cr.states[i].state != cr.states[i + 1].state;
        let hit = effective && if manual_mode { is_flush_op(&case.ops[i]) } else { is_sync_op(&case.ops[i]) };
        if hit {
            lo = i + 1;
        } else if rot.contains(&i) {
            // a journal rotation seals (fsyncs) everything journaled BEFORE it; inside a write
            // operation the rotation runs in the forced worker steps that precede the write itself,
            // so the operation's own record already belongs to the new, not yet persisted journal
            lo = lo.max(i);
        }
    }
    let lost = if manual_mode { 0 } else { apply_power_loss(&parse_log(&sb.log)) };
    let cfg = case.cfg.clone();
    let root = sb.root.clone();
    let states = &cr.states;
    let hi = m.started;
    let r = std::panic::catch_unwind(std::panic::AssertUnwindSafe(|| -> Result<State, String> {
        let db = open_db(&root, &cfg, &OpenOpts { workers: 0, lz4: cfg.journal_lz4 }).map_err(|e| format!("reopening after power loss failed: {e:?}"))?;
        dump_db(&db)
    }));
    let got = match r {
        Ok(x) => x?,
        Err(p) => {
            let msg = p.downcast_ref::<String>().cloned().or_else(|| p.downcast_ref::<&str>().map(|s| (*s).to_string())).unwrap_or_default();
            return Err(format!("recovery panicked: {msg}"));
        }
    };
    // both clauses state a lower bound only: keyspace creation/deletion is durable at once, journal
    // content is a per-keyspace prefix
    match_loose(&got, states, lo, hi).map_err(|e| if manual_mode { format!("manual journal persist (operations before the last persist(Buffer)/flush point must survive a process crash): {e}") } else { e })?;
    post_recovery_probe(&sb.root, &case.cfg, &got)?;
    Ok(lo >= 1 && m.acked > lo && (manual_mode || lost > 0))
}

/// log-level invariants on the count run: at every acknowledged sync point no journal byte is unsynced;
/// the old journal is fully synced before the next one is created; clean close leaves nothing unsynced
pub fn log_invariants(case: &Case, cr: &CountRun) -> Result<u64, String> {
    let mut checked = 0;
    for (i, op) in case.ops.iter().enumerate() {
        let sync = match op {
            Op::Persist { mode } => mode % 3 != 0,
            Op::Batch { dur, items } => dur % 5 >= 3 && !items.is_empty() && cr.states[i].state != cr.states[i + 1].state,
            _ => false,
        };
        if sync {
            let st = journal_sync_state(&cr.log, cr.states[i + 1].calls);
            for (p, f) in &st {
                if !f.unsynced.is_empty() {
                    return Err(format!("operation {i} ({}) was acknowledged with sync durability, but {} journal bytes in {} were not followed by fsync/fdatasync", op_kind(op), f.unsynced.iter().map(|x| x.1).sum::<i64>(), p.rsplit('/').next().unwrap_or("")));
                }
            }
            checked += 1;
        }
    }
    // rotation: when a new journal is created every other journal must be synced
    for l in cr.log.iter().filter(|l| l.op == "open" && is_jnl(&l.path) && (l.off & 0o100 != 0) && l.ret >= 0) {
        let st = journal_sync_state(&cr.log, l.seq);
        for (p, f) in &st {
            if p != &l.path && !f.unsynced.is_empty() {
                return Err(format!("journal {} was created while {} still had unsynced bytes (rotation must sync the old journal first)", l.path.rsplit('/').next().unwrap_or(""), p.rsplit('/').next().unwrap_or("")));
            }
        }
        checked += 1;
    }
    let st = journal_sync_state(&cr.log, usize::MAX);
    for (p, f) in &st {
        if !f.unsynced.is_empty() {
            return Err(format!("after a clean drop journal {} still has unsynced bytes", p.rsplit('/').next().unwrap_or("")));
        }
    }
    Ok(checked + 1)
}

pub fn shard_power(def: &E2Def, tier: &str, seed: u64, shard: u32, programs: u32) -> ShardOut {
    silence_panics();
    let thorough = tier == "thorough";
    let base = scratch_root().join(format!("e2p{shard}"));
    let sb = Sandbox::new(&base);
    let mut r = runner(1, seed_bytes(seed, shard, def.id));
    let cs = case_s(&def.profile);
    let mut out = ShardOut::default();
    let mut stats: BTreeMap<String, u64> = BTreeMap::new();
    let mut rng = seed ^ (u64::from(shard) << 36) ^ 0x0bad_cafe;
    'prog: for pi in 0..programs {
        let mut case = cs.new_tree(&mut r).unwrap().current();
        // every third program exercises the manual-persist clause (process crash)
        let manual_mode = pi % 5 >= 3;
        // manual persist at both levels, or only at keyspace level (database default = automatic)
        let ks_level_only = pi % 5 == 4;
        case.cfg.db_manual_persist = manual_mode && !ks_level_only;
        for k in &mut case.cfg.ks {
            k.manual_persist = manual_mode;
        }
        if ks_level_only {
            *stats.entry("programs_manual_persist_keyspace_level_only".into()).or_insert(0) += 1;
        }
        for op in &mut case.ops {
            if let Op::CreateKs { cfg, .. } = op {
                cfg.manual_persist = manual_mode;
            }
        }
        let cr = match count_run(&sb, &case) {
            Ok(c) => c,
            Err(e) => {
                if e.starts_with("UNINJECTED-RUN-FAILED") {
                    out.failure = Some(uninjected_failure(def.id, &case, &e));
                    break 'prog;
                }
                *stats.entry("count_run_failed".into()).or_insert(0) += 1;
                continue;
            }
        };
        *stats.entry("programs".into()).or_insert(0) += 1;
        *stats.entry(if manual_mode { "programs_manual_persist_process_crash" } else { "programs_power_loss" }.into()).or_insert(0) += 1;
        match log_invariants(&case, &cr) {
            Ok(n) => *stats.entry("log_invariants_checked".into()).or_insert(0) += n,
            Err(e) => {
                out.failure = Some(FailureOut {
                    case: serde_json::to_value(&E2Replay { property: def.id.into(), case: case.clone(), inject: Inject::default(), cut: None, extra: Some(json!({"manual_mode": manual_mode, "log_invariant": true})), failure: json!({"msg": e}) }).unwrap(),
                    msg: e,
                    step: 0,
                    original_msg: String::new(),
                });
                break 'prog;
            }
        }
        if !rotation_ops(&cr).is_empty() {
            *stats.entry("programs_with_journal_rotation".into()).or_insert(0) += 1;
        }
        // kill points: only after the first sync point
        let first_sync = (0..case.ops.len())
            .find(|i| {
                let o = &case.ops[*i];
                let effective = !matches!(o, Op::Batch { .. }) || cr.states[*i].state != cr.states[*i + 1].state;
                effective && if manual_mode { is_flush_op(o) } else { is_sync_op(o) }
            })
            .into_iter()
            .chain(rotation_ops(&cr).first().copied())
            .min();
        let Some(fs) = first_sync else {
            *stats.entry("programs_without_sync_point".into()).or_insert(0) += 1;
            continue;
        };
        let from = cr.states[fs + 1].calls;
        let all: Vec<usize> = (from..cr.total_calls).collect();
        let pts: Vec<usize> = if thorough || all.len() <= def.quick_points {
            all
        } else {
            let mut v = vec![];
            let stride = all.len() as f64 / def.quick_points as f64;
            for k in 0..def.quick_points {
                rng ^= rng << 13;
                rng ^= rng >> 7;
                rng ^= rng << 17;
                let lo = (k as f64 * stride) as usize;
                let hi = (((k + 1) as f64 * stride) as usize).max(lo + 1).min(all.len());
                v.push(all[lo + (rng as usize) % (hi - lo)]);
            }
            v
        };
        let h = case_hash(&case);
        for n in pts {
            out.evaluations += 1;
            match power_check(&sb, &case, &cr, n as i64, -1, manual_mode) {
                Ok(nt) => {
                    if nt {
                        out.nt_hashes.push(case_hash(&(h, n)));
                        if out.samples.len() < 2 {
                            out.samples.push(json!({"case": case, "kill_before_call": n, "mode": if manual_mode { "manual persist + process crash" } else { "power loss (unsynced journal bytes reverted)" }}));
                        }
                    }
                }
                Err(e) if e.starts_with("INCONCLUSIVE") => {}
                Err(e) => {
                    out.failure = Some(FailureOut {
                        case: serde_json::to_value(&E2Replay { property: def.id.into(), case: case.clone(), inject: Inject { kill: Some((n as i64, -1)), fail: None, scope_jnl: false }, cut: None, extra: Some(json!({"manual_mode": manual_mode})), failure: json!({"msg": e}) }).unwrap(),
                        msg: e,
                        step: n,
                        original_msg: String::new(),
                    });
                    break 'prog;
                }
            }
        }
    }
    out.stats = stats;
    let _ = std::fs::remove_dir_all(&base);
    out
}

pub fn replay_power(rp: &E2Replay) -> Option<String> {
    silence_panics();
    let base = scratch_root().join("e2preplay");
    let sb = Sandbox::new(&base);
    let manual = rp.extra.as_ref().and_then(|x| x.get("manual_mode")).and_then(|x| x.as_bool()).unwrap_or(false);
    let r = (|| -> Result<(), String> {
        let cr = count_run(&sb, &rp.case)?;
        log_invariants(&rp.case, &cr)?;
        if let Some((n, t)) = rp.inject.kill {
            power_check(&sb, &rp.case, &cr, n, t, manual)?;
        }
        Ok(())
    })();
    let _ = std::fs::remove_dir_all(&base);
    r.err().filter(|e| !e.starts_with("INCONCLUSIVE"))
}
