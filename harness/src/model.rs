//! Reference models: ordered maps, read evaluation, selection/walk semantics.

use crate::case::{Bd, Read, Sel, Walk, B, F};
use serde::{Deserialize, Serialize};
use std::collections::BTreeMap;
use std::ops::Bound;

pub type Map = BTreeMap<Vec<u8>, Vec<u8>>;
/// whole-database state: keyspace name -> content
pub type State = BTreeMap<String, Map>;

#[derive(Clone, Debug, PartialEq, Eq, Serialize, Deserialize, Hash)]
pub enum Item {
    Kv(Vec<u8>, Vec<u8>),
    K(Vec<u8>),
    V(Vec<u8>),
    Size(u32),
    KvIf(Vec<u8>, Option<Vec<u8>>),
}

#[derive(Clone, Debug, PartialEq, Eq, Serialize, Deserialize, Hash)]
pub enum ReadRes {
    Val(Option<Vec<u8>>),
    Bool(bool),
    Size(Option<u32>),
    Kv(Option<(Vec<u8>, Vec<u8>)>),
    Len(usize),
    Items(Vec<Item>),
}

pub fn short(v: &[u8]) -> String {
    if v.len() <= 24 {
        format!("{:?}", String::from_utf8_lossy(v))
    } else {
        format!("<{}B:{:02x}{:02x}..>", v.len(), v[0], v[1])
    }
}

impl ReadRes {
    pub fn brief(&self) -> String {
        match self {
            ReadRes::Val(v) => format!("Val({})", v.as_ref().map_or("None".into(), |v| short(v))),
            ReadRes::Bool(b) => format!("Bool({b})"),
            ReadRes::Size(s) => format!("Size({s:?})"),
            ReadRes::Kv(kv) => format!(
                "Kv({})",
                kv.as_ref()
                    .map_or("None".into(), |(k, v)| format!("{}={}", short(k), short(v)))
            ),
            ReadRes::Len(n) => format!("Len({n})"),
            ReadRes::Items(items) => {
                let mut s = format!("Items[{}](", items.len());
                for it in items.iter().take(12) {
                    s.push_str(&match it {
                        Item::Kv(k, v) => format!("{}={} ", short(k), short(v)),
                        Item::K(k) => format!("k{} ", short(k)),
                        Item::V(v) => format!("v{} ", short(v)),
                        Item::Size(n) => format!("#{n} "),
                        Item::KvIf(k, v) => format!(
                            "{}?{} ",
                            short(k),
                            v.as_ref().map_or("-".into(), |v| short(v))
                        ),
                    });
                }
                s.push(')');
                s
            }
        }
    }
}

pub fn bound(b: &Bd) -> Bound<Vec<u8>> {
    match b {
        Bd::U => Bound::Unbounded,
        Bd::I(x) => Bound::Included(x.mat()),
        Bd::E(x) => Bound::Excluded(x.mat()),
    }
}

/// Normalises a generated range so that it is one `BTreeMap::range` accepts
/// (start <= end, not both excluded on the same key).
pub fn norm_range(lo: &Bd, hi: &Bd) -> (Bound<Vec<u8>>, Bound<Vec<u8>>) {
    let mut l = bound(lo);
    let mut h = bound(hi);
    let lk = match &l {
        Bound::Included(k) | Bound::Excluded(k) => Some(k.clone()),
        Bound::Unbounded => None,
    };
    let hk = match &h {
        Bound::Included(k) | Bound::Excluded(k) => Some(k.clone()),
        Bound::Unbounded => None,
    };
    if let (Some(a), Some(b)) = (&lk, &hk) {
        if a > b {
            // swap keys, keep bound kinds
            l = match l {
                Bound::Included(_) => Bound::Included(b.clone()),
                Bound::Excluded(_) => Bound::Excluded(b.clone()),
                Bound::Unbounded => Bound::Unbounded,
            };
            h = match h {
                Bound::Included(_) => Bound::Included(a.clone()),
                Bound::Excluded(_) => Bound::Excluded(a.clone()),
                Bound::Unbounded => Bound::Unbounded,
            };
        } else if a == b {
            if let (Bound::Excluded(_), Bound::Excluded(_)) = (&l, &h) {
                l = Bound::Included(a.clone());
            }
        }
    }
    (l, h)
}

pub fn select(map: &Map, sel: &Sel) -> Vec<(Vec<u8>, Vec<u8>)> {
    match sel {
        Sel::All => map.iter().map(|(k, v)| (k.clone(), v.clone())).collect(),
        Sel::Range(lo, hi) => {
            let (l, h) = norm_range(lo, hi);
            map.range::<Vec<u8>, _>((l, h))
                .map(|(k, v)| (k.clone(), v.clone()))
                .collect()
        }
        Sel::Prefix(p) => {
            let p = p.mat();
            map.range::<Vec<u8>, _>((Bound::Included(p.clone()), Bound::Unbounded))
                .take_while(|(k, _)| k.starts_with(&p))
                .map(|(k, v)| (k.clone(), v.clone()))
                .collect()
        }
    }
}

/// Predicate used with `Guard::into_inner_if`
pub fn pred_key(k: &[u8]) -> bool {
    k.last().map_or(true, |b| b % 2 == 0)
}

pub fn mk_item(acc: u8, k: Vec<u8>, v: Vec<u8>) -> Item {
    match acc % 5 {
        0 => Item::Kv(k, v),
        1 => Item::K(k),
        2 => Item::V(v),
        3 => Item::Size(v.len() as u32),
        _ => {
            if pred_key(&k) {
                Item::KvIf(k, Some(v))
            } else {
                Item::KvIf(k, None)
            }
        }
    }
}

/// The order in which a walk consumes `n` items: list of (from_back) decisions
pub fn walk_order(items: Vec<(Vec<u8>, Vec<u8>)>, walk: &Walk) -> Vec<(Vec<u8>, Vec<u8>)> {
    let mut dq: std::collections::VecDeque<_> = items.into();
    let mut out = Vec::with_capacity(dq.len());
    let mut i = 0usize;
    while !dq.is_empty() {
        let back = match walk {
            Walk::Fwd => false,
            Walk::Rev => true,
            Walk::Ends(p) => {
                if p.is_empty() {
                    false
                } else {
                    p[i % p.len()]
                }
            }
        };
        i += 1;
        let it = if back { dq.pop_back() } else { dq.pop_front() };
        out.push(it.unwrap());
    }
    out
}

pub fn eval_read(map: &Map, r: &Read) -> ReadRes {
    match r {
        Read::Get(k) => ReadRes::Val(map.get(&k.mat()).cloned()),
        Read::Contains(k) => ReadRes::Bool(map.contains_key(&k.mat())),
        Read::SizeOf(k) => ReadRes::Size(map.get(&k.mat()).map(|v| v.len() as u32)),
        Read::First => ReadRes::Kv(map.iter().next().map(|(k, v)| (k.clone(), v.clone()))),
        Read::Last => ReadRes::Kv(map.iter().next_back().map(|(k, v)| (k.clone(), v.clone()))),
        Read::Len => ReadRes::Len(map.len()),
        Read::IsEmpty => ReadRes::Bool(map.is_empty()),
        Read::Scan(sel, walk, acc) => {
            let items = walk_order(select(map, sel), walk);
            ReadRes::Items(items.into_iter().map(|(k, v)| mk_item(*acc, k, v)).collect())
        }
    }
}

pub fn apply_f(f: &F, prev: Option<&[u8]>) -> Option<Vec<u8>> {
    match f {
        F::Set(v) => Some(v.mat()),
        F::Delete => None,
        F::Append(b) => {
            let mut v = prev.map(<[u8]>::to_vec).unwrap_or_default();
            if v.len() < 64 {
                v.push(*b);
            }
            Some(v)
        }
        F::Toggle(v) => {
            if prev.is_some() {
                None
            } else {
                Some(v.mat())
            }
        }
        F::Same => prev.map(<[u8]>::to_vec),
    }
}

pub fn keys_of_read(r: &Read) -> Vec<B> {
    match r {
        Read::Get(k) | Read::Contains(k) | Read::SizeOf(k) => vec![k.clone()],
        _ => vec![],
    }
}
