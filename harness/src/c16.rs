//! C16: keyspace options chosen at creation stay in force across reopen and round-trip through
//! the stored form unchanged.

use crate::driver::*;
use fjall::config::*;
use fjall::{CompressionType, Database, KeyspaceCreateOptions, KvSeparationOptions};
use proptest::collection::vec;
use proptest::prelude::*;
use proptest::test_runner::{TestCaseError, TestError};
use serde::{Deserialize, Serialize};
use serde_json::json;
use std::collections::BTreeSet;
use std::path::Path;
use std::sync::Arc;

#[derive(Clone, Debug, Serialize, Deserialize, PartialEq, Hash, Eq)]
pub enum FE {
    None,
    Bits(u32),
    Fpr(u32),
}

#[derive(Clone, Debug, Serialize, Deserialize, PartialEq, Hash, Eq)]
pub enum StratO {
    Leveled { l0: u8, target: u64, ratios: Vec<u32> },
    Fifo { limit: u64, ttl: Option<u64> },
}

#[derive(Clone, Debug, Serialize, Deserialize, PartialEq, Hash, Eq)]
pub struct BlobO {
    pub lz4: bool,
    pub target: u64,
    pub thr: u32,
    pub stale: u32,
    pub age: u32,
}

/// floats are carried as bit patterns so that the case is Eq/Hash and compared bit-wise
#[derive(Clone, Debug, Serialize, Deserialize, PartialEq, Hash, Eq)]
pub struct OptSet {
    pub memtable: Option<u64>,
    pub manual: Option<bool>,
    pub ephits: Option<bool>,
    pub block_size: Option<Vec<u32>>,
    pub restart: Option<Vec<u8>>,
    pub hash_ratio: Option<Vec<u32>>,
    pub data_comp: Option<Vec<bool>>,
    pub index_comp: Option<Vec<bool>>,
    pub idx_pin: Option<Vec<bool>>,
    pub flt_pin: Option<Vec<bool>>,
    pub idx_part: Option<Vec<bool>>,
    pub flt_part: Option<Vec<bool>>,
    pub filter: Option<Vec<FE>>,
    pub strategy: Option<StratO>,
    pub blob: Option<Option<BlobO>>,
}

impl OptSet {
    pub fn non_default_fields(&self) -> usize {
        [
            self.memtable.is_some(),
            self.manual.is_some(),
            self.ephits.is_some(),
            self.block_size.is_some(),
            self.restart.is_some(),
            self.hash_ratio.is_some(),
            self.data_comp.is_some(),
            self.index_comp.is_some(),
            self.idx_pin.is_some(),
            self.flt_pin.is_some(),
            self.idx_part.is_some(),
            self.flt_part.is_some(),
            self.filter.is_some(),
            self.strategy.is_some(),
            self.blob.is_some(),
        ]
        .iter()
        .filter(|x| **x)
        .count()
    }

    pub fn build(&self) -> KeyspaceCreateOptions {
        let ct = |b: &bool| if *b { CompressionType::Lz4 } else { CompressionType::None };
        let mut o = KeyspaceCreateOptions::default();
        if let Some(x) = self.memtable {
            o = o.max_memtable_size(x);
        }
        if let Some(x) = self.manual {
            o = o.manual_journal_persist(x);
        }
        if let Some(x) = self.ephits {
            o = o.expect_point_read_hits(x);
        }
        if let Some(x) = &self.block_size {
            o = o.data_block_size_policy(BlockSizePolicy::new(x.clone()));
        }
        if let Some(x) = &self.restart {
            o = o.data_block_restart_interval_policy(RestartIntervalPolicy::new(x.clone()));
        }
        if let Some(x) = &self.hash_ratio {
            o = o.data_block_hash_ratio_policy(HashRatioPolicy::new(x.iter().map(|b| f32::from_bits(*b)).collect::<Vec<_>>()));
        }
        if let Some(x) = &self.data_comp {
            o = o.data_block_compression_policy(CompressionPolicy::new(x.iter().map(ct).collect::<Vec<_>>()));
        }
        if let Some(x) = &self.index_comp {
            o = o.index_block_compression_policy(CompressionPolicy::new(x.iter().map(ct).collect::<Vec<_>>()));
        }
        if let Some(x) = &self.idx_pin {
            o = o.index_block_pinning_policy(PinningPolicy::new(x.clone()));
        }
        if let Some(x) = &self.flt_pin {
            o = o.filter_block_pinning_policy(PinningPolicy::new(x.clone()));
        }
        if let Some(x) = &self.idx_part {
            o = o.index_block_partitioning_policy(PartitioningPolicy::new(x.clone()));
        }
        if let Some(x) = &self.flt_part {
            o = o.filter_block_partitioning_policy(PartitioningPolicy::new(x.clone()));
        }
        if let Some(x) = &self.filter {
            o = o.filter_policy(FilterPolicy::new(
                x.iter()
                    .map(|e| match e {
                        FE::None => FilterPolicyEntry::None,
                        FE::Bits(b) => FilterPolicyEntry::Bloom(BloomConstructionPolicy::BitsPerKey(f32::from_bits(*b))),
                        FE::Fpr(b) => FilterPolicyEntry::Bloom(BloomConstructionPolicy::FalsePositiveRate(f32::from_bits(*b))),
                    })
                    .collect::<Vec<_>>(),
            ));
        }
        if let Some(x) = &self.strategy {
            o = match x {
                StratO::Leveled { l0, target, ratios } => o.compaction_strategy(Arc::new(
                    fjall::compaction::Leveled::default()
                        .with_l0_threshold(*l0)
                        .with_table_target_size(*target)
                        .with_level_ratio_policy(ratios.iter().map(|b| f32::from_bits(*b)).collect()),
                )),
                StratO::Fifo { limit, ttl } => o.compaction_strategy(Arc::new(fjall::compaction::Fifo::new(*limit, *ttl))),
            };
        }
        if let Some(x) = &self.blob {
            o = o.with_kv_separation(x.as_ref().map(|b| {
                KvSeparationOptions::default()
                    .compression(ct(&b.lz4))
                    .file_target_size(b.target)
                    .separation_threshold(b.thr)
                    .staleness_threshold(f32::from_bits(b.stale))
                    .age_cutoff(f32::from_bits(b.age))
            }));
        }
        o
    }
}

/// observable option values of a live keyspace, as a comparable string list
pub fn observe(ks: &fjall::Keyspace) -> Vec<(String, String)> {
    let c = &ks.config;
    let bits = |v: &[f32]| v.iter().map(|f| f.to_bits()).collect::<Vec<_>>();
    let mut v = vec![
        ("max_memtable_size".into(), ks.verif_max_memtable_size().to_string()),
        ("manual_journal_persist".into(), ks.verif_manual_journal_persist().to_string()),
        ("expect_point_read_hits".into(), c.expect_point_read_hits.to_string()),
        ("data_block_size_policy".into(), format!("{:?}", c.data_block_size_policy)),
        ("data_block_restart_interval_policy".into(), format!("{:?}", c.data_block_restart_interval_policy)),
        ("index_block_restart_interval_policy".into(), format!("{:?}", c.index_block_restart_interval_policy)),
        ("data_block_hash_ratio_policy".into(), format!("{:?}", bits(&c.data_block_hash_ratio_policy))),
        ("data_block_compression_policy".into(), format!("{:?}", c.data_block_compression_policy)),
        ("index_block_compression_policy".into(), format!("{:?}", c.index_block_compression_policy)),
        ("index_block_pinning_policy".into(), format!("{:?}", c.index_block_pinning_policy)),
        ("filter_block_pinning_policy".into(), format!("{:?}", c.filter_block_pinning_policy)),
        ("index_block_partitioning_policy".into(), format!("{:?}", c.index_block_partitioning_policy)),
        ("filter_block_partitioning_policy".into(), format!("{:?}", c.filter_block_partitioning_policy)),
        (
            "filter_policy".into(),
            format!(
                "{:?}",
                c.filter_policy
                    .iter()
                    .map(|e| match e {
                        FilterPolicyEntry::None => "none".to_string(),
                        FilterPolicyEntry::Bloom(BloomConstructionPolicy::BitsPerKey(f)) => format!("bits:{}", f.to_bits()),
                        FilterPolicyEntry::Bloom(BloomConstructionPolicy::FalsePositiveRate(f)) => format!("fpr:{}", f.to_bits()),
                    })
                    .collect::<Vec<_>>()
            ),
        ),
        ("compaction_strategy".into(), c.compaction_strategy.get_name().to_string()),
        (
            "compaction_strategy_config".into(),
            format!("{:?}", c.compaction_strategy.get_config().iter().map(|(k, v)| (k.to_vec(), v.to_vec())).collect::<Vec<_>>()),
        ),
        ("is_kv_separated".into(), ks.is_kv_separated().to_string()),
        (
            "kv_separation_opts".into(),
            match &c.kv_separation_opts {
                None => "none".to_string(),
                Some(b) => format!("{:?} {} {} {} {}", b.compression, b.file_target_size, b.separation_threshold, b.staleness_threshold.to_bits(), b.age_cutoff.to_bits()),
            },
        ),
    ];
    v.sort();
    v
}

#[derive(Clone, Debug, Serialize, Deserialize, PartialEq, Hash, Eq)]
pub struct C16Case {
    /// per keyspace: creation options, then the (ignored) options passed at each reopen
    pub ks: Vec<(OptSet, Vec<OptSet>)>,
    pub write: bool,
}

fn f32_s(lo: f32, hi: f32) -> BoxedStrategy<u32> {
    prop_oneof![
        3 => (lo..hi).prop_map(f32::to_bits),
        1 => Just(lo.to_bits()),
        1 => Just(((lo + hi) / 2.0).to_bits()),
    ]
    .boxed()
}

fn len_s() -> BoxedStrategy<usize> {
    prop_oneof![10 => 1usize..6, 1 => Just(255usize), 1 => 6usize..40].boxed()
}

fn vec_s<T: std::fmt::Debug + Clone + 'static>(e: BoxedStrategy<T>) -> BoxedStrategy<Vec<T>> {
    len_s().prop_flat_map(move |n| vec(e.clone(), n..=n)).boxed()
}

fn optset_s() -> BoxedStrategy<OptSet> {
    (
        (
            prop::option::weighted(0.5, prop_oneof![Just(1u64), Just(256), 1000u64..100_000_000, Just(u64::MAX)]),
            prop::option::weighted(0.4, any::<bool>()),
            prop::option::weighted(0.4, any::<bool>()),
            prop::option::weighted(0.45, vec_s(prop_oneof![Just(4096u32), 512u32..200_000].boxed())),
            prop::option::weighted(0.45, vec_s((1u8..=255).boxed())),
            prop::option::weighted(0.45, vec_s(f32_s(0.0, 16.0))),
            prop::option::weighted(0.45, vec_s(any::<bool>().boxed())),
        ),
        (
            prop::option::weighted(0.45, vec_s(any::<bool>().boxed())),
            prop::option::weighted(0.45, vec_s(any::<bool>().boxed())),
            prop::option::weighted(0.45, vec_s(any::<bool>().boxed())),
            prop::option::weighted(0.45, vec_s(any::<bool>().boxed())),
            prop::option::weighted(0.45, vec_s(any::<bool>().boxed())),
            prop::option::weighted(
                0.5,
                vec_s(prop_oneof![Just(FE::None), f32_s(0.0, 30.0).prop_map(FE::Bits), f32_s(0.000_01, 0.9).prop_map(FE::Fpr)].boxed()),
            ),
            prop::option::weighted(
                0.6,
                prop_oneof![
                    (1u8..=255, prop_oneof![Just(64u64 * 1024 * 1024), 1024u64..1_000_000_000], vec_s(f32_s(1.5, 20.0)))
                        .prop_map(|(l0, target, ratios)| StratO::Leveled { l0, target, ratios }),
                    (prop_oneof![Just(u64::MAX), 1u64..10_000_000_000], prop::option::of(prop_oneof![Just(0u64), 1u64..1_000_000]))
                        .prop_map(|(limit, ttl)| StratO::Fifo { limit, ttl }),
                ],
            ),
            prop::option::weighted(
                0.5,
                prop::option::weighted(
                    0.8,
                    (any::<bool>(), prop_oneof![Just(64u64 * 1024 * 1024), 1000u64..1_000_000_000], prop_oneof![Just(1u32), Just(1024), 1u32..100_000], f32_s(0.0, 1.0), f32_s(0.0, 1.0))
                        .prop_map(|(lz4, target, thr, stale, age)| BlobO { lz4, target, thr, stale, age }),
                ),
            ),
        ),
    )
        .prop_map(|((memtable, manual, ephits, block_size, restart, hash_ratio, data_comp), (index_comp, idx_pin, flt_pin, idx_part, flt_part, filter, strategy, blob))| OptSet {
            memtable,
            manual,
            ephits,
            block_size,
            restart,
            hash_ratio,
            data_comp,
            index_comp,
            idx_pin,
            flt_pin,
            idx_part,
            flt_part,
            filter,
            strategy,
            blob,
        })
        .boxed()
}

pub fn case_s() -> BoxedStrategy<C16Case> {
    (vec((optset_s(), vec(optset_s(), 1..=3)), 1..=3), any::<bool>())
        .prop_map(|(ks, write)| C16Case { ks, write })
        .boxed()
}

pub fn run_c16(dir: &Path, c: &C16Case) -> Result<(), String> {
    let _ = std::fs::remove_dir_all(dir);
    let r = std::panic::catch_unwind(std::panic::AssertUnwindSafe(|| -> Result<(), String> {
        let names = ["a", "ab", "b"];
        let mut expected: Vec<Vec<(String, String)>> = vec![];
        {
            let db = Database::builder(dir).worker_threads_unchecked(0).open().map_err(|e| format!("open: {e:?}"))?;
            for (i, (create, _)) in c.ks.iter().enumerate() {
                let ks = db.keyspace(names[i], || create.build()).map_err(|e| format!("create keyspace: {e:?}"))?;
                // what the options look like in a freshly created keyspace is the reference
                let want = observe(&ks);
                // ... and it must be what was asked for
                let asked = create.build();
                if format!("{:?}", asked.data_block_size_policy) != want.iter().find(|x| x.0 == "data_block_size_policy").unwrap().1 {
                    return Err("created keyspace does not carry the requested data_block_size_policy".into());
                }
                if c.write {
                    ks.insert("k", "v").map_err(|e| format!("insert: {e:?}"))?;
                }
                expected.push(want);
            }
        }
        let rounds = c.ks.iter().map(|k| k.1.len()).max().unwrap_or(1);
        for round in 0..rounds {
            let db = Database::builder(dir).worker_threads_unchecked(0).open().map_err(|e| format!("reopen {round}: {e:?}"))?;
            for (i, (_, alts)) in c.ks.iter().enumerate() {
                let alt = &alts[round.min(alts.len() - 1)];
                let ks = db.keyspace(names[i], || alt.build()).map_err(|e| format!("open keyspace: {e:?}"))?;
                let got = observe(&ks);
                if got != expected[i] {
                    let d: Vec<String> = got
                        .iter()
                        .zip(expected[i].iter())
                        .filter(|(a, b)| a != b)
                        .map(|(a, b)| format!("{}: after reopen {} / at creation {}", a.0, &a.1[..a.1.len().min(120)], &b.1[..b.1.len().min(120)]))
                        .collect();
                    return Err(format!("keyspace {} (reopen #{}): options in effect differ from the creation-time ones: {}", names[i], round + 1, d.join("; ")));
                }
                if c.write && ks.get("k").map_err(|e| format!("get: {e:?}"))?.as_deref() != Some(b"v".as_slice()) {
                    return Err("data lost".into());
                }
            }
        }
        Ok(())
    }));
    let res = match r {
        Ok(x) => x,
        Err(p) => Err(format!("panic: {}", p.downcast_ref::<String>().cloned().or_else(|| p.downcast_ref::<&str>().map(|s| (*s).to_string())).unwrap_or_default())),
    };
    let _ = std::fs::remove_dir_all(dir);
    res
}

pub fn shard_c16(seed: u64, shard: u32, cases: u32) -> ShardOut {
    silence_panics();
    let base = scratch_root().join(format!("c16s{shard}"));
    std::fs::create_dir_all(&base).ok();
    let dir = base.join("db");
    let mut r = runner(cases, seed_bytes(seed, shard, "C16"));
    let out = std::cell::RefCell::new(ShardOut::default());
    let failed = std::cell::Cell::new(false);
    let res = r.run(&case_s(), |c| {
        let rr = run_c16(&dir, &c);
        if !failed.get() {
            let mut o = out.borrow_mut();
            o.evaluations += 1;
            let nd = c.ks.iter().map(|k| k.0.non_default_fields()).max().unwrap_or(0);
            let differs = c.ks.iter().any(|k| k.1.iter().any(|a| a != &k.0));
            *o.stats.entry(format!("non_default_fields_{}", nd.min(9))).or_insert(0) += 1;
            if c.ks.iter().any(|k| k.0.blob.as_ref().map_or(false, Option::is_some)) {
                *o.stats.entry("with_kv_separation".into()).or_insert(0) += 1;
            }
            if c.ks.iter().any(|k| matches!(k.0.strategy, Some(StratO::Fifo { .. }))) {
                *o.stats.entry("with_fifo".into()).or_insert(0) += 1;
            }
            if c.ks.iter().any(|k| k.0.filter.as_ref().map_or(false, |f| f.len() == 255)) {
                *o.stats.entry("with_255_entry_policy".into()).or_insert(0) += 1;
            }
            if nd >= 3 && differs {
                o.nt_hashes.push(crate::case::case_hash(&c));
                if o.samples.len() < 2 {
                    o.samples.push(serde_json::to_value(&c).unwrap());
                }
            }
        }
        match rr {
            Ok(()) => Ok(()),
            Err(e) => {
                failed.set(true);
                Err(TestCaseError::fail(e))
            }
        }
    });
    let mut o = out.into_inner();
    if let Err(TestError::Fail(reason, minimal)) = res {
        let msg = run_c16(&dir, &minimal).err().unwrap_or_else(|| reason.to_string());
        o.failure = Some(FailureOut { case: json!({"property": "C16", "case": minimal, "failure": {"msg": msg}}), msg, step: 0, original_msg: String::new() });
    }
    let _ = std::fs::remove_dir_all(&base);
    o
}

pub fn replay_c16(v: &serde_json::Value) -> Option<String> {
    silence_panics();
    let c: C16Case = serde_json::from_value(v.get("case")?.clone()).ok()?;
    let base = scratch_root().join("c16replay");
    std::fs::create_dir_all(&base).ok();
    let r = run_c16(&base.join("db"), &c);
    let _ = std::fs::remove_dir_all(&base);
    r.err()
}

pub fn check_c16(tier: &str, seed: u64) -> i32 {
    let t0 = std::time::Instant::now();
    clear_old_replays("C16");
    let mut violations = vec![];
    let mut corpus_n = 0;
    for p in corpus_files("C16") {
        if let Ok(v) = std::fs::read_to_string(&p).map_err(|e| e.to_string()).and_then(|s| serde_json::from_str::<serde_json::Value>(&s).map_err(|e| e.to_string())) {
            corpus_n += 1;
            if let Some(msg) = replay_c16(&v) {
                println!("corpus case {} fails: {msg}", p.display());
                violations.push(p.clone());
            }
        }
    }
    let total: u32 = if tier == "thorough" { 2_000_000 } else { 160_000 };
    let m = match run_shards("C16", tier, seed, 16, total.div_ceil(16), &BTreeSet::new(), std::time::Duration::from_secs(if tier == "thorough" { 3 * 3600 } else { 900 })) {
        Ok(m) => m,
        Err(e) => {
            eprintln!("engine failure: {e}");
            return 2;
        }
    };
    for f in &m.failures {
        let p = write_replay_raw("C16", &f.case);
        println!("failure: {}", f.msg);
        violations.push(p);
    }
    let wall = t0.elapsed().as_secs_f64();
    write_evidence(
        "C16",
        tier,
        seed,
        "exploration",
        &m,
        "cases = 1-3 keyspaces, each with a generated option set built through every public KeyspaceCreateOptions setter (policy vectors of length 1-5, sometimes 6-39 and 255; block size / restart interval / hash ratio / data+index compression / index+filter pinning / index+filter partitioning / filter policy entries None, BitsPerKey, FalsePositiveRate with finite floats compared bit-wise; Leveled l0 threshold, target size, ratio vector; FIFO limit and ttl present/absent; kv-separation absent/present with all five fields; memtable size; manual journal persist; expect_point_read_hits) and 1-3 reopens that each pass a DIFFERENT generated option set; oracle = after every reopen the options observable on the keyspace (doc-hidden config fields, compaction strategy name + config, is_kv_separated, and the two cfg-hook accessors) equal the ones observed right after creation; non-trivial = creation set differs from the default in >= 3 setters and a reopen passes a different set; distinct by case hash",
        &["values the constructors reject (empty vectors, > 255 entries) are outside the domain", "index_block_restart_interval_policy and level_count have no public setter"],
        wall,
        violations.len(),
        json!({"corpus_cases_replayed": corpus_n}),
    );
    println!("C16: {} cases, {} distinct non-trivial, {} violations, {:.1}s", m.evaluations, m.nt.len(), violations.len(), wall);
    if !violations.is_empty() {
        for p in &violations {
            println!("VIOLATION property=C16 replay={}", p.display());
        }
        return 1;
    }
    crate::driver::exit_code_for_inconclusive(&m)
}
