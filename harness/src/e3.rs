//! E3: concurrency. Owned schedules (pause points with an intruder action at an exact instant)
//! and sampled schedules (real threads, real workers, recorded histories + explicit checkers).

use crate::case::*;
use crate::driver::*;
use crate::gen::{key_s, val_s, Profile};
use crate::interp::{Opts, World};
use crate::model::Map;
use fjall::{AbstractTree, Readable};
use proptest::collection::vec;
use proptest::prelude::*;
use proptest::test_runner::{TestCaseError, TestError};
use serde::{Deserialize, Serialize};
use serde_json::json;
use std::collections::{BTreeMap, BTreeSet};
use std::path::Path;
use std::sync::atomic::{AtomicUsize, Ordering};
use std::sync::{Arc, Mutex};

// ------------------------------------------------------------------ C06 owned schedules

#[derive(Clone, Debug, Serialize, Deserialize, PartialEq, Eq, Hash)]
pub struct OwnedCase {
    pub cfg: Cfg,
    /// populates the keyspaces; ends with tables + a sealed memtable in some keyspaces
    pub prefix: Vec<Op>,
    pub batch: Vec<(u16, B, Option<B>)>,
    /// 0 batch.journaled, 1 batch.apply, 2 batch.before_publish
    pub point: u8,
    pub hit: u8,
    /// 0 none, 1 major_compact of a keyspace, 2 flush (lsm-tree level, as the flush worker does after its journal section), 3 compaction step via strategy
    pub intruder: u8,
    pub intruder_ks: u16,
    pub as_tx: bool,
}

pub fn owned_s() -> BoxedStrategy<OwnedCase> {
    let p = Profile {
        hot_keys: true,
        big: false,
        ..Profile::default()
    };
    let k = key_s(&p);
    let v = val_s(&p);
    let kc = prop_oneof![Just(256u64), Just(1024)].prop_map(|memtable| KsCfg {
        blob: None,
        memtable,
        strategy: Strat::LeveledSmall { l0: 2, target: 2048 },
        manual_persist: false,
    });
    let pre = prop_oneof![
        6 => (any::<u16>(), k.clone(), v.clone()).prop_map(|(ks, k, v)| Op::Insert { ks, k, v }),
        2 => any::<u16>().prop_map(|ks| Op::Rotate { ks }),
        2 => (1u8..3).prop_map(|n| Op::Step { n }),
    ];
    (
        (prop_oneof![Just(Flavor::Plain), Just(Flavor::Optimistic), Just(Flavor::SingleWriter)], vec(kc, 2..=3)),
        vec(pre, 2..10),
        vec((any::<u16>(), k, prop::option::weighted(0.8, v)), 2..8),
        0u8..3,
        0u8..8,
        0u8..4,
        any::<u16>(),
        any::<bool>(),
    )
        .prop_map(|((flavor, ks), mut prefix, batch, point, hit, intruder, intruder_ks, as_tx)| {
            // make sure there is something to flush/compact: a rotation near the end
            prefix.push(Op::Rotate { ks: intruder_ks });
            OwnedCase {
                cfg: Cfg {
                    flavor,
                    journal_lz4: false,
                    db_manual_persist: false,
                    pos_scale: 1,
                    ks,
                    filter_mask: 0,
                },
                prefix,
                batch,
                point,
                hit,
                intruder,
                intruder_ks,
                as_tx,
            }
        })
        .boxed()
}

type Img = Vec<Option<Vec<u8>>>;

/// reads the batch keys through every kind of fresh view
fn observe(w: &World, keys: &[(String, Vec<u8>)]) -> Result<Vec<(String, Img)>, String> {
    let db = w.dbi();
    let mut out = vec![];
    let snap = db.snapshot();
    let mut a: Img = vec![];
    let mut b: Img = vec![];
    let mut c: Img = vec![];
    let mut d: Img = vec![];
    let mut e: Img = vec![];
    for (n, k) in keys {
        let h = &w.ks[n];
        a.push(snap.get(&h.ks, k).map_err(|e| format!("{e:?}"))?.map(|v| v.to_vec()));
        // scans through the snapshot
        let mut found = None;
        for g in snap.iter(&h.ks) {
            let (kk, vv) = g.into_inner().map_err(|e| format!("{e:?}"))?;
            if &*kk == k.as_slice() {
                found = Some(vv.to_vec());
            }
        }
        b.push(found);
        // single scans on the keyspace (each its own instant)
        let mut found = None;
        for g in h.ks.iter() {
            let (kk, vv) = g.into_inner().map_err(|e| format!("{e:?}"))?;
            if &*kk == k.as_slice() {
                found = Some(vv.to_vec());
            }
        }
        c.push(found);
        let mut found = None;
        for g in h.ks.prefix(k) {
            let (kk, vv) = g.into_inner().map_err(|e| format!("{e:?}"))?;
            if &*kk == k.as_slice() {
                found = Some(vv.to_vec());
            }
        }
        d.push(found);
        let mut found = None;
        for g in h.ks.range::<Vec<u8>, _>(k.clone()..=k.clone()) {
            let (kk, vv) = g.into_inner().map_err(|e| format!("{e:?}"))?;
            if &*kk == k.as_slice() {
                found = Some(vv.to_vec());
            }
        }
        e.push(found);
    }
    out.push(("snapshot.get".to_string(), a));
    out.push(("snapshot.iter".to_string(), b));
    // single scans see one instant each only per keyspace; they are judged per keyspace below
    out.push(("keyspace.iter".to_string(), c));
    out.push(("keyspace.prefix".to_string(), d));
    out.push(("keyspace.range".to_string(), e));
    Ok(out)
}

pub struct OwnedOut {
    pub fired: bool,
    pub strictly_inside: bool,
    pub intruder_done: bool,
}

pub fn run_owned(dir: &Path, c: &OwnedCase, exclude: &BTreeSet<String>) -> Result<OwnedOut, String> {
    let _ = std::fs::remove_dir_all(dir);
    let o = Opts::default();
    let mut w = World::new(dir, &c.cfg, &o);
    let r = std::panic::catch_unwind(std::panic::AssertUnwindSafe(|| -> Result<OwnedOut, String> {
        w.start()?;
        for op in &c.prefix {
            w.exec(op)?;
        }
        // resolve the batch
        let names = w.names();
        let mut items: Vec<(String, Vec<u8>, Option<Vec<u8>>)> = vec![];
        for (ks, k, v) in &c.batch {
            let n = names[idx(*ks, names.len()).unwrap()].clone();
            items.push((n, k.mat(), v.as_ref().map(B::mat)));
        }
        let mut keys: Vec<(String, Vec<u8>)> = items.iter().map(|x| (x.0.clone(), x.1.clone())).collect();
        keys.sort();
        keys.dedup();
        let before: Img = keys.iter().map(|(n, k)| w.model[n].get(k).cloned()).collect();
        let mut after_m: BTreeMap<(String, Vec<u8>), Option<Vec<u8>>> = keys.iter().zip(before.iter()).map(|(k, v)| (k.clone(), v.clone())).collect();
        for (n, k, v) in &items {
            after_m.insert((n.clone(), k.clone()), v.clone());
        }
        let after: Img = keys.iter().map(|k| after_m[k].clone()).collect();
        let distinct_keys = keys.len();
        // intruder target
        let ik = names[idx(c.intruder_ks, names.len()).unwrap()].clone();
        let ikh = w.ks[&ik].clone();
        let point_name: &'static str = match c.point % 3 {
            0 => "batch.journaled",
            1 => "batch.apply",
            _ => "batch.before_publish",
        };
        let hits = Arc::new(AtomicUsize::new(0));
        let want_hit = if c.point % 3 == 1 { usize::from(c.hit) % items.len().max(1) } else { 0 };
        let obs_at_pause: Arc<Mutex<Option<Result<(Vec<(String, Img)>, fjall::Snapshot), String>>>> = Arc::new(Mutex::new(None));
        let intr_done = Arc::new(AtomicUsize::new(0));
        // SAFETY-ish: the handler runs on this thread while `w` is borrowed immutably by the victim call;
        // it only uses shared handles cloned beforehand.
        let wp: *const World = &w;
        let keys2 = keys.clone();
        let (hits2, obs2, intr2) = (hits.clone(), obs_at_pause.clone(), intr_done.clone());
        let intruder = c.intruder % 4;
        let excl = exclude.contains("version_change_during_batch_apply");
        let wp_addr = wp as usize;
        fjall::verif::set_point_handler(Some(Arc::new(move |name: &'static str| {
            if name != point_name {
                return;
            }
            let h = hits2.fetch_add(1, Ordering::SeqCst);
            if h != want_hit {
                return;
            }
            let w: &World = unsafe { &*(wp_addr as *const World) };
            // intruder: a version change of a keyspace (as a background worker would complete it)
            if !excl {
                match intruder {
                    1 => {
                        if ikh.ks.major_compact().is_ok() {
                            intr2.store(1, Ordering::SeqCst);
                        }
                    }
                    2 => {
                        let lock = ikh.ks.tree.get_flush_lock();
                        let wm = w.dbi().supervisor.snapshot_tracker.get_seqno_safe_to_gc();
                        if let Ok(Some(_)) = ikh.ks.tree.flush(&lock, wm) {
                            intr2.store(1, Ordering::SeqCst);
                        }
                    }
                    3 => {
                        let strat = ikh.ks.config.compaction_strategy.clone();
                        let wm = w.dbi().supervisor.snapshot_tracker.get_seqno_safe_to_gc();
                        if ikh.ks.tree.compact(strat, wm).is_ok() {
                            intr2.store(1, Ordering::SeqCst);
                        }
                    }
                    _ => {}
                }
            }
            let snap = w.dbi().snapshot();
            let r = observe(w, &keys2).map(|o| (o, snap));
            *obs2.lock().unwrap() = Some(r);
        })));
        // victim
        let commit_res: Result<(), String> = (|| {
            match (w.db.as_ref().unwrap(), c.as_tx) {
                (crate::real::DbH::Opt(d), true) => {
                    let mut tx = d.write_tx().map_err(|e| format!("{e:?}"))?;
                    for (n, k, v) in &items {
                        match v {
                            Some(v) => tx.insert(&w.ks[n].ks, k.clone(), v.clone()),
                            None => tx.remove(&w.ks[n].ks, k.clone()),
                        }
                    }
                    tx.commit().map_err(|e| format!("{e:?}"))?.map_err(|_| "conflict".to_string())
                }
                (crate::real::DbH::Single(d), true) => {
                    let mut tx = d.write_tx();
                    for (n, k, v) in &items {
                        let h = w.ks[n].sw.as_ref().unwrap();
                        match v {
                            Some(v) => tx.insert(h, k.clone(), v.clone()),
                            None => tx.remove(h, k.clone()),
                        }
                    }
                    tx.commit().map_err(|e| format!("{e:?}"))
                }
                (d, _) => {
                    let mut b = d.inner().batch();
                    for (n, k, v) in &items {
                        match v {
                            Some(v) => b.insert(&w.ks[n].ks, k.clone(), v.clone()),
                            None => b.remove(&w.ks[n].ks, k.clone()),
                        }
                    }
                    b.commit().map_err(|e| format!("{e:?}"))
                }
            }
        })();
        fjall::verif::set_point_handler(None);
        commit_res.map_err(|e| format!("victim commit failed: {e}"))?;
        let fired = hits.load(Ordering::SeqCst) > want_hit;
        let got = obs_at_pause.lock().unwrap().take();
        let judge = |label: &str, when: &str, img: &Img| -> Result<(), String> {
            if img == &before || img == &after {
                return Ok(());
            }
            Err(format!(
                "{label} taken {when} sees the batch partially: keys {:?}: observed {:?}, before-image {:?}, after-image {:?}",
                keys.iter().map(|(n, k)| format!("{n}/{}", crate::model::short(k))).collect::<Vec<_>>(),
                img.iter().map(|v| v.as_ref().map(|v| crate::model::short(v))).collect::<Vec<_>>(),
                before.iter().map(|v| v.as_ref().map(|v| crate::model::short(v))).collect::<Vec<_>>(),
                after.iter().map(|v| v.as_ref().map(|v| crate::model::short(v))).collect::<Vec<_>>()
            ))
        };
        let mut strictly_inside = false;
        if let Some(r) = got {
            let (obs, snap) = r?;
            strictly_inside = c.point % 3 == 1 && want_hit >= 1 && distinct_keys >= 2;
            let when = format!("at {point_name}#{want_hit} after intruder {}", c.intruder % 4);
            for (label, img) in &obs {
                if label.starts_with("snapshot") {
                    judge(label, &when, img)?;
                } else {
                    // single scans: one instant per scan, i.e. per key here; each key must show its before or after value
                    for (i, v) in img.iter().enumerate() {
                        if v != &before[i] && v != &after[i] {
                            return Err(format!("{label} {when}: key {} shows a value that is neither the old nor the new one", crate::model::short(&keys[i].1)));
                        }
                    }
                }
            }
            // the view opened at the pause must not change once the commit has returned
            let again: Img = keys.iter().map(|(n, k)| snap.get(&w.ks[n].ks, k).map(|v| v.map(|v| v.to_vec()))).collect::<Result<_, _>>().map_err(|e| format!("{e:?}"))?;
            let first = &obs[0].1;
            if &again != first {
                return Err(format!("a snapshot opened {when} changed after the commit returned: first {:?} then {:?}", first.iter().map(|v| v.as_ref().map(|v| crate::model::short(v))).collect::<Vec<_>>(), again.iter().map(|v| v.as_ref().map(|v| crate::model::short(v))).collect::<Vec<_>>()));
            }
        }
        // after the commit: everything sees the after-image
        let obs = observe(&w, &keys)?;
        for (label, img) in &obs {
            if img != &after {
                return Err(format!("{label} after the commit returned does not show the whole batch"));
            }
        }
        Ok(OwnedOut {
            fired,
            strictly_inside,
            intruder_done: intr_done.load(Ordering::SeqCst) == 1,
        })
    }));
    fjall::verif::set_point_handler(None);
    let res = match r {
        Ok(x) => x,
        Err(p) => Err(format!("panic: {}", p.downcast_ref::<String>().cloned().or_else(|| p.downcast_ref::<&str>().map(|s| (*s).to_string())).unwrap_or_default())),
    };
    let _ = std::panic::catch_unwind(std::panic::AssertUnwindSafe(|| w.close_all()));
    drop(w);
    let _ = std::fs::remove_dir_all(dir);
    res
}

pub fn shard_c06_owned(seed: u64, shard: u32, cases: u32, exclude: &BTreeSet<String>) -> ShardOut {
    silence_panics();
    let base = scratch_root().join(format!("c06s{shard}"));
    std::fs::create_dir_all(&base).ok();
    let dir = base.join("db");
    let mut r = runner(cases, seed_bytes(seed, shard, "C06"));
    let out = std::cell::RefCell::new(ShardOut::default());
    let failed = std::cell::Cell::new(false);
    let res = r.run(&owned_s(), |c| {
        phase(&format!("C06 owned case {}", serde_json::to_string(&c).unwrap_or_default()));
        let rr = run_owned(&dir, &c, exclude);
        if !failed.get() {
            let mut o = out.borrow_mut();
            o.evaluations += 1;
            if let Ok(x) = &rr {
                if x.fired {
                    *o.stats.entry("pause_point_fired".into()).or_insert(0) += 1;
                }
                if x.intruder_done {
                    *o.stats.entry(format!("intruder_{}_completed", c.intruder % 4)).or_insert(0) += 1;
                }
                if exclude.contains("version_change_during_batch_apply") && c.intruder % 4 != 0 {
                    *o.stats.entry("excluded_known".into()).or_insert(0) += 1;
                }
                if x.fired && x.strictly_inside && (x.intruder_done || exclude.contains("version_change_during_batch_apply")) {
                    o.nt_hashes.push(case_hash(&c));
                    if o.samples.len() < 2 {
                        o.samples.push(serde_json::to_value(&c).unwrap());
                    }
                }
            }
        }
        match rr {
            Ok(_) => Ok(()),
            Err(e) => {
                failed.set(true);
                Err(TestCaseError::fail(e))
            }
        }
    });
    let mut o = out.into_inner();
    if let Err(TestError::Fail(reason, minimal)) = res {
        let msg = run_owned(&dir, &minimal, exclude).err().unwrap_or_else(|| reason.to_string());
        o.failure = Some(FailureOut { case: json!({"property": "C06", "kind": "owned", "case": minimal, "failure": {"msg": msg}}), msg, step: 0, original_msg: String::new() });
    }
    let _ = std::fs::remove_dir_all(&base);
    o
}

pub fn _unused(_: &Map) {}

pub fn replay_c06(v: &serde_json::Value, exclude: &BTreeSet<String>) -> Option<String> {
    silence_panics();
    let base = scratch_root().join("c06replay");
    std::fs::create_dir_all(&base).ok();
    let r = match v.get("kind").and_then(|k| k.as_str()) {
        Some("owned") => {
            let c: OwnedCase = serde_json::from_value(v.get("case")?.clone()).ok()?;
            run_owned(&base.join("db"), &c, exclude).err()
        }
        Some("history") => check_batch_history(v.get("history")?).err(),
        _ => None,
    };
    let _ = std::fs::remove_dir_all(&base);
    r
}

pub const C06_RULE: &str = "OWNED schedules: {populating prefix incl. rotations/flushes, victim = write batch or transaction commit (both flavours) of 2-7 items over 2-3 keyspaces, pause point (batch.journaled | batch.apply hit i | batch.before_publish), intruder = version change of a keyspace exactly at that instant (major compaction, flush completion at lsm-tree level as the flush worker does after its journal section, strategy compaction step) or none}; observation = fresh Database::snapshot (get + iter) and single Keyspace::iter/range/prefix scans taken at the pause and again after the commit returned; oracle = every snapshot shows the batch entirely or not at all across keys and keyspaces, single scans show old or new value per key, a snapshot opened at the pause is unchanged afterwards, after the commit everything shows the whole batch. SAMPLED schedules: writer threads commit numbered batches (same value in all keys of the writer's key set spanning keyspaces), reader threads take snapshots / read transactions / scans, real workers, tiny memtables; checker: each observation constant over a writer's key set, per reader non-decreasing, a batch acknowledged before a snapshot was opened is visible in it. non-trivial (owned) = observation strictly between two item applies of a batch with >= 2 distinct keys after an intruder that completed a version change; (sampled) = history with >= 1 flush during the run and >= 2 writers; distinct by case hash / history hash";

// ------------------------------------------------------------------ sampled schedules: batch atomicity

#[derive(Clone, Debug, Serialize, Deserialize)]
pub struct BatchObs {
    pub reader: usize,
    pub kind: String,
    /// per writer: last batch number acknowledged before the view was opened
    pub acked: Vec<u64>,
    /// per writer, per key of its key set: observed batch number (0 = absent), or u64::MAX for a foreign/garbled value
    pub seen: Vec<Vec<u64>>,
}

#[derive(Clone, Debug, Serialize, Deserialize)]
pub struct BatchHistory {
    pub flavor: Flavor,
    pub writers: usize,
    /// per writer: (keyspace index, key)
    pub keys: Vec<Vec<(usize, Vec<u8>)>>,
    pub obs: Vec<BatchObs>,
    pub flushes: u64,
    pub batches_per_writer: u64,
}

fn parse_b(w: usize, v: Option<&[u8]>) -> u64 {
    match v {
        None => 0,
        Some(v) => {
            let s = String::from_utf8_lossy(v);
            let mut it = s.split(':');
            match (it.next().and_then(|x| x.parse::<usize>().ok()), it.next().and_then(|x| x.parse::<u64>().ok())) {
                (Some(ww), Some(b)) if ww == w => b,
                _ => u64::MAX,
            }
        }
    }
}

pub fn check_batch_history(v: &serde_json::Value) -> Result<(), String> {
    let h: BatchHistory = serde_json::from_value(v.clone()).map_err(|e| format!("unreadable history: {e}"))?;
    let mut last: BTreeMap<(usize, usize), u64> = BTreeMap::new();
    for (i, o) in h.obs.iter().enumerate() {
        for w in 0..h.writers {
            let seen = &o.seen[w];
            if seen.iter().any(|b| *b == u64::MAX) {
                return Err(format!("observation #{i} ({}): a key of writer {w} holds a value no batch of that writer wrote", o.kind));
            }
            // atomicity: snapshot-like views cover all keys; single scans cover one keyspace each
            if o.kind == "iter" {
                let mut per_ks: BTreeMap<usize, BTreeSet<u64>> = BTreeMap::new();
                for (j, (ks, _)) in h.keys[w].iter().enumerate() {
                    per_ks.entry(*ks).or_default().insert(seen[j]);
                }
                if let Some((ks, s)) = per_ks.iter().find(|(_, s)| s.len() > 1) {
                    return Err(format!("observation #{i}: a single scan of keyspace {ks} by reader {} sees writer {w}'s batch partially (batch numbers {s:?})", o.reader));
                }
            } else {
                let s: BTreeSet<u64> = seen.iter().copied().collect();
                if s.len() > 1 {
                    return Err(format!("observation #{i}: {} of reader {} sees writer {w}'s batches partially: batch numbers {:?} over its key set (acknowledged before open: {})", o.kind, o.reader, seen, o.acked[w]));
                }
            }
            let b = seen.iter().copied().min().unwrap_or(0);
            if b < o.acked[w] {
                return Err(format!("observation #{i}: {} of reader {} was opened after batch {} of writer {w} had been acknowledged but shows batch {b}", o.kind, o.reader, o.acked[w]));
            }
            let e = last.entry((o.reader, w)).or_insert(0);
            if o.kind != "iter" {
                if b < *e {
                    return Err(format!("observation #{i}: reader {} saw batch {} of writer {w} earlier and now sees batch {b} (commit order violated)", o.reader, *e));
                }
                *e = b;
            }
        }
    }
    Ok(())
}

#[derive(Clone, Debug, Serialize, Deserialize)]
pub struct SampledParams {
    pub flavor: Flavor,
    pub writers: usize,
    pub readers: usize,
    pub keyspaces: usize,
    pub keys_per_writer: usize,
    pub batches: u64,
    pub workers: usize,
    pub memtable: u64,
    pub delay_seed: u64,
}

fn install_delays(seed: u64) {
    let state = Arc::new(std::sync::atomic::AtomicU64::new(seed | 1));
    fjall::verif::set_point_handler(Some(Arc::new(move |_name: &'static str| {
        let mut x = state.load(Ordering::Relaxed);
        x ^= x << 13;
        x ^= x >> 7;
        x ^= x << 17;
        state.store(x, Ordering::Relaxed);
        match x % 16 {
            0 => std::thread::sleep(std::time::Duration::from_micros(50 + x % 150)),
            1..=3 => std::thread::yield_now(),
            _ => {}
        }
    })));
}

pub fn run_batch_history(dir: &Path, p: &SampledParams) -> Result<BatchHistory, String> {
    use crate::real::{open_db, open_ks, OpenOpts};
    let _ = std::fs::remove_dir_all(dir);
    let cfg = Cfg {
        flavor: p.flavor,
        journal_lz4: false,
        db_manual_persist: false,
        pos_scale: 64_000,
        ks: vec![],
        filter_mask: 0,
    };
    let db = open_db(dir, &cfg, &OpenOpts { workers: p.workers, lz4: false }).map_err(|e| format!("open: {e:?}"))?;
    let kc = KsCfg { blob: None, memtable: p.memtable, strategy: Strat::LeveledSmall { l0: 2, target: 4096 }, manual_persist: false };
    let kss: Vec<crate::real::KsH> = (0..p.keyspaces).map(|i| open_ks(&db, NAMES[i], &kc).map_err(|e| format!("{e:?}"))).collect::<Result<_, _>>()?;
    let keys: Vec<Vec<(usize, Vec<u8>)>> = (0..p.writers)
        .map(|w| (0..p.keys_per_writer).map(|j| ((w + j) % p.keyspaces, format!("w{w}k{j}").into_bytes())).collect())
        .collect();
    let acked: Vec<std::sync::atomic::AtomicU64> = (0..p.writers).map(|_| std::sync::atomic::AtomicU64::new(0)).collect();
    let done = std::sync::atomic::AtomicUsize::new(0);
    let obs: Mutex<Vec<BatchObs>> = Mutex::new(vec![]);
    let err: Mutex<Option<String>> = Mutex::new(None);
    install_delays(p.delay_seed);
    let flushes_before: usize = kss.iter().map(|h| h.ks.tree.table_count()).sum();
    std::thread::scope(|s| {
        for w in 0..p.writers {
            let (db, kss, keys, acked, done, err) = (&db, &kss, &keys, &acked, &done, &err);
            s.spawn(move || {
                for b in 1..=p.batches {
                    let val = format!("{w}:{b}:{}", "x".repeat(((b * 37 + w as u64 * 11) % 120) as usize)).into_bytes();
                    let r: Result<(), String> = match db {
                        // a writer with a single key uses the plain single-operation path
                        crate::real::DbH::Plain(_) if keys[w].len() == 1 => {
                            let (ks, k) = &keys[w][0];
                            kss[*ks].ks.insert(k.clone(), val.clone()).map_err(|e| format!("{e:?}"))
                        }
                        crate::real::DbH::Plain(d) => {
                            let mut bt = d.batch();
                            for (ks, k) in &keys[w] {
                                bt.insert(&kss[*ks].ks, k.clone(), val.clone());
                            }
                            bt.commit().map_err(|e| format!("{e:?}"))
                        }
                        crate::real::DbH::Single(d) => {
                            let mut tx = d.write_tx();
                            for (ks, k) in &keys[w] {
                                tx.insert(kss[*ks].sw.as_ref().unwrap(), k.clone(), val.clone());
                            }
                            tx.commit().map_err(|e| format!("{e:?}"))
                        }
                        crate::real::DbH::Opt(d) => (|| {
                            let mut tx = d.write_tx().map_err(|e| format!("{e:?}"))?;
                            for (ks, k) in &keys[w] {
                                tx.insert(&kss[*ks].ks, k.clone(), val.clone());
                            }
                            tx.commit().map_err(|e| format!("{e:?}"))?.map_err(|_| "blind-write transaction conflicted".to_string())
                        })(),
                    };
                    if let Err(e) = r {
                        *err.lock().unwrap() = Some(format!("writer {w} batch {b}: {e}"));
                        break;
                    }
                    acked[w].store(b, Ordering::SeqCst);
                }
                done.fetch_add(1, Ordering::SeqCst);
            });
        }
        for r in 0..p.readers {
            let (db, kss, keys, acked, done, obs, err) = (&db, &kss, &keys, &acked, &done, &obs, &err);
            s.spawn(move || {
                let mut n = 0u64;
                let mut local = vec![];
                loop {
                    let finished = done.load(Ordering::SeqCst) == p.writers;
                    n += 1;
                    let ack: Vec<u64> = acked.iter().map(|a| a.load(Ordering::SeqCst)).collect();
                    let kind = match (n + r as u64) % 3 {
                        0 => "snapshot",
                        1 => "read_tx",
                        _ => "iter",
                    };
                    let res: Result<Vec<Vec<u64>>, String> = (|| {
                        let mut seen = vec![];
                        if kind == "iter" {
                            // one scan per keyspace
                            let mut maps: Vec<BTreeMap<Vec<u8>, Vec<u8>>> = vec![];
                            for h in kss.iter() {
                                let mut m = BTreeMap::new();
                                for g in h.ks.iter() {
                                    let (k, v) = g.into_inner().map_err(|e| format!("{e:?}"))?;
                                    m.insert(k.to_vec(), v.to_vec());
                                }
                                maps.push(m);
                            }
                            for w in 0..p.writers {
                                seen.push(keys[w].iter().map(|(ks, k)| parse_b(w, maps[*ks].get(k).map(|v| v.as_slice()))).collect());
                            }
                        } else {
                            let snap = match (db, kind) {
                                (crate::real::DbH::Single(d), "read_tx") => d.read_tx(),
                                (crate::real::DbH::Opt(d), "read_tx") => d.read_tx(),
                                (d, _) => d.inner().snapshot(),
                            };
                            for w in 0..p.writers {
                                let mut row = vec![];
                                for (ks, k) in &keys[w] {
                                    let v = snap.get(&kss[*ks].ks, k).map_err(|e| format!("using a live snapshot failed: {e:?}"))?;
                                    row.push(parse_b(w, v.as_deref()));
                                }
                                seen.push(row);
                            }
                            // the same view, read again: it must not have changed
                            for w in 0..p.writers {
                                for (j, (ks, k)) in keys[w].iter().enumerate() {
                                    let v = snap.get(&kss[*ks].ks, k).map_err(|e| format!("using a live snapshot failed: {e:?}"))?;
                                    let b = parse_b(w, v.as_deref());
                                    if b != seen[w][j] {
                                        return Err(format!("a live {kind} changed: key {} of writer {w} first showed batch/value {} and then {b}", String::from_utf8_lossy(k), seen[w][j]));
                                    }
                                }
                            }
                        }
                        Ok(seen)
                    })();
                    match res {
                        Ok(seen) => local.push(BatchObs { reader: r, kind: kind.to_string(), acked: ack, seen }),
                        Err(e) => {
                            *err.lock().unwrap() = Some(format!("reader {r}: {e}"));
                            break;
                        }
                    }
                    if finished || local.len() > 4000 {
                        break;
                    }
                }
                obs.lock().unwrap().extend(local);
            });
        }
    });
    fjall::verif::set_point_handler(None);
    let flushes_after: usize = kss.iter().map(|h| h.ks.tree.table_count()).sum();
    drop(kss);
    drop(db);
    let _ = std::fs::remove_dir_all(dir);
    if let Some(e) = err.into_inner().unwrap() {
        return Err(e);
    }
    Ok(BatchHistory {
        flavor: p.flavor,
        writers: p.writers,
        keys,
        obs: obs.into_inner().unwrap(),
        flushes: (flushes_after.max(flushes_before) - flushes_before) as u64 + 1,
        batches_per_writer: p.batches,
    })
}

pub fn shard_c06(tier: &str, seed: u64, shard: u32, cases: u32, exclude: &BTreeSet<String>) -> ShardOut {
    let mut o = if std::env::var("FJV_DEBUG_ONLY_SAMPLED").is_ok() { ShardOut::default() } else { shard_c06_owned(seed, shard, cases, exclude) };
    if o.failure.is_some() {
        return o;
    }
    // sampled schedules
    silence_panics();
    let base = scratch_root().join(format!("c06h{shard}"));
    std::fs::create_dir_all(&base).ok();
    let n_hist = if tier == "thorough" { cases / 10 + 4 } else { cases / 15 + 2 };
    let mut rng = seed ^ (u64::from(shard) << 37) ^ 0xc06c_06c0;
    let mut next = move || {
        rng ^= rng << 13;
        rng ^= rng >> 7;
        rng ^= rng << 17;
        rng
    };
    for _ in 0..n_hist {
        let p = SampledParams {
            flavor: [Flavor::Plain, Flavor::SingleWriter, Flavor::Optimistic][(next() % 3) as usize],
            writers: 2 + (next() % 3) as usize,
            readers: 2 + (next() % 2) as usize,
            keyspaces: 1 + (next() % 3) as usize,
            keys_per_writer: 1 + (next() % 4) as usize,
            batches: 40 + next() % 40,
            workers: 1 + (next() % 3) as usize,
            // known finding C06-KF1: with the exclusion active no background version change may
            // complete during a commit, i.e. memtables are never rotated in the sampled histories
            memtable: if exclude.contains("version_change_during_batch_apply") { 64 * 1024 * 1024 } else { [256u64, 1024, 4096][(next() % 3) as usize] },
            delay_seed: next(),
        };
        if exclude.contains("version_change_during_batch_apply") {
            *o.stats.entry("excluded_known".into()).or_insert(0) += 1;
        }
        o.evaluations += 1;
        phase(&format!("C06 sampled history {}", serde_json::to_string(&p).unwrap_or_default()));
        *o.stats.entry("sampled_histories".into()).or_insert(0) += 1;
        match run_batch_history(&base.join("db"), &p) {
            Err(e) => {
                o.failure = Some(FailureOut { case: json!({"property": "C06", "kind": "sampled-error", "params": p, "failure": {"msg": e}}), msg: e, step: 0, original_msg: String::new() });
                break;
            }
            Ok(h) => {
                *o.stats.entry("sampled_observations".into()).or_insert(0) += h.obs.len() as u64;
                let hv = serde_json::to_value(&h).unwrap();
                if let Err(e) = check_batch_history(&hv) {
                    o.failure = Some(FailureOut { case: json!({"property": "C06", "kind": "history", "params": p, "history": hv, "failure": {"msg": e}}), msg: e, step: 0, original_msg: String::new() });
                    break;
                }
                if (h.flushes > 1 || exclude.contains("version_change_during_batch_apply")) && h.writers >= 2 {
                    o.nt_hashes.push(case_hash(&hv.to_string()));
                }
            }
        }
    }
    let _ = std::fs::remove_dir_all(&base);
    o
}

// ------------------------------------------------------------------ C14: linearizability of single operations

#[derive(Clone, Debug, Serialize, Deserialize, PartialEq, Eq)]
pub enum LinOp {
    /// write value id (0 = remove)
    W(u64),
    /// get -> observed value id (0 = absent)
    R(u64),
    /// contains_key -> bool
    C(bool),
}

#[derive(Clone, Debug, Serialize, Deserialize)]
pub struct LinEv {
    pub thread: usize,
    pub key: usize,
    pub call: u64,
    pub ret: u64,
    pub op: LinOp,
}

#[derive(Clone, Debug, Serialize, Deserialize)]
pub struct LinHistory {
    pub keys: usize,
    pub events: Vec<LinEv>,
    /// final value id per key (read after all threads joined)
    pub fin: Vec<u64>,
    pub flushes: u64,
}

/// Wing-Gong search for one register
fn lin_key(evs: &[&LinEv], fin: u64) -> Result<(), String> {
    let n = evs.len();
    if n > 40 {
        return Err("INCONCLUSIVE: too many operations on one key".into());
    }
    let mut memo: std::collections::HashSet<(u64, u64)> = std::collections::HashSet::new();
    fn go(evs: &[&LinEv], placed: u64, val: u64, fin: u64, memo: &mut std::collections::HashSet<(u64, u64)>, budget: &mut u64) -> Option<bool> {
        let n = evs.len();
        if placed == (1u64 << n) - 1 {
            return Some(val == fin);
        }
        if !memo.insert((placed, val)) {
            return Some(false);
        }
        if *budget == 0 {
            return None;
        }
        *budget -= 1;
        // minimal return time among unplaced operations: an op can go next only if it was called before that
        let min_ret = (0..n).filter(|i| placed & (1 << i) == 0).map(|i| evs[i].ret).min().unwrap();
        for i in 0..n {
            if placed & (1 << i) != 0 || evs[i].call > min_ret {
                continue;
            }
            let (ok, nv) = match &evs[i].op {
                LinOp::W(v) => (true, *v),
                LinOp::R(v) => (*v == val, val),
                LinOp::C(b) => (*b == (val != 0), val),
            };
            if ok {
                match go(evs, placed | (1 << i), nv, fin, memo, budget) {
                    Some(true) => return Some(true),
                    None => return None,
                    Some(false) => {}
                }
            }
        }
        Some(false)
    }
    let mut budget = 2_000_000u64;
    match go(evs, 0, 0, fin, &mut memo, &mut budget) {
        Some(true) => Ok(()),
        Some(false) => Err("not linearizable".into()),
        None => Err("INCONCLUSIVE: search budget exhausted".into()),
    }
}

pub fn check_lin_history(v: &serde_json::Value) -> Result<(), String> {
    let h: LinHistory = serde_json::from_value(v.clone()).map_err(|e| format!("unreadable history: {e}"))?;
    for k in 0..h.keys {
        let evs: Vec<&LinEv> = h.events.iter().filter(|e| e.key == k).collect();
        match lin_key(&evs, h.fin[k]) {
            Ok(()) => {}
            Err(e) if e.starts_with("INCONCLUSIVE") => return Err(e),
            Err(_) => {
                let mut s = format!("operations on key {k} are not linearizable (no order consistent with real time explains all results and the final value id {}): ", h.fin[k]);
                let mut es = evs.clone();
                es.sort_by_key(|e| e.call);
                for e in es.iter().take(40) {
                    s.push_str(&format!("[t{} {}..{} {:?}] ", e.thread, e.call, e.ret, e.op));
                }
                return Err(s);
            }
        }
    }
    Ok(())
}

#[derive(Clone, Debug, Serialize, Deserialize)]
pub struct LinParams {
    pub threads: usize,
    pub hot_keys: usize,
    pub ops_per_thread: usize,
    pub workers: usize,
    pub memtable: u64,
    pub blob: bool,
    pub delay_seed: u64,
    pub seed: u64,
}

pub fn run_lin_history(dir: &Path, p: &LinParams) -> Result<LinHistory, String> {
    use fjall::{Database, KeyspaceCreateOptions};
    let _ = std::fs::remove_dir_all(dir);
    fjall::verif::JOURNAL_POS_SCALE.store(64_000, Ordering::SeqCst);
    let db = Database::builder(dir).worker_threads(p.workers.max(1)).open().map_err(|e| format!("open: {e:?}"))?;
    let ks = db
        .keyspace("a", || {
            let mut o = KeyspaceCreateOptions::default().max_memtable_size(p.memtable).compaction_strategy(Arc::new(fjall::compaction::Leveled::default().with_l0_threshold(2).with_table_target_size(4096)));
            if p.blob {
                o = o.with_kv_separation(Some(fjall::KvSeparationOptions::default().separation_threshold(32)));
            }
            o
        })
        .map_err(|e| format!("{e:?}"))?;
    let clock = std::sync::atomic::AtomicU64::new(1);
    let idgen = std::sync::atomic::AtomicU64::new(1);
    let events: Mutex<Vec<LinEv>> = Mutex::new(vec![]);
    let err: Mutex<Option<String>> = Mutex::new(None);
    let private_ok = std::sync::atomic::AtomicUsize::new(0);
    install_delays(p.delay_seed);
    let val_of = |id: u64| -> Vec<u8> { format!("{id}:{}", "v".repeat((id % 90) as usize)).into_bytes() };
    let id_of = |v: Option<&[u8]>| -> u64 { v.map_or(0, |v| String::from_utf8_lossy(v).split(':').next().and_then(|x| x.parse().ok()).unwrap_or(u64::MAX)) };
    let tables_before = ks.table_count();
    std::thread::scope(|s| {
        for t in 0..p.threads {
            let (ks, clock, idgen, events, err, private_ok) = (ks.clone(), &clock, &idgen, &events, &err, &private_ok);
            s.spawn(move || {
                let mut x = p.seed ^ ((t as u64 + 1) * 0x9E37_79B9_7F4A_7C15);
                let mut rnd = move || {
                    x ^= x << 13;
                    x ^= x >> 7;
                    x ^= x << 17;
                    x
                };
                let mut local = vec![];
                let mut last_private: Option<Vec<u8>> = None;
                for i in 0..p.ops_per_thread {
                    let key = (rnd() % p.hot_keys as u64) as usize;
                    let kb = format!("hot{key}").into_bytes();
                    let choice = rnd() % 10;
                    let call = clock.fetch_add(1, Ordering::SeqCst);
                    let op = match choice {
                        0..=3 => {
                            let id = idgen.fetch_add(1, Ordering::SeqCst);
                            if let Err(e) = ks.insert(kb.clone(), val_of(id)) {
                                *err.lock().unwrap() = Some(format!("insert: {e:?}"));
                                return;
                            }
                            LinOp::W(id)
                        }
                        4 => {
                            if let Err(e) = ks.remove(kb.clone()) {
                                *err.lock().unwrap() = Some(format!("remove: {e:?}"));
                                return;
                            }
                            LinOp::W(0)
                        }
                        5..=7 => match ks.get(&kb) {
                            Ok(v) => LinOp::R(id_of(v.as_deref())),
                            Err(e) => {
                                *err.lock().unwrap() = Some(format!("get: {e:?}"));
                                return;
                            }
                        },
                        _ => match ks.contains_key(&kb) {
                            Ok(b) => LinOp::C(b),
                            Err(e) => {
                                *err.lock().unwrap() = Some(format!("contains_key: {e:?}"));
                                return;
                            }
                        },
                    };
                    let ret = clock.fetch_add(1, Ordering::SeqCst);
                    local.push(LinEv { thread: t, key, call, ret, op });
                    // private key: no write may be lost
                    if i % 3 == 0 {
                        let pk = format!("private{t}").into_bytes();
                        let pv = format!("{t}-{i}-{}", "p".repeat(i % 70)).into_bytes();
                        if ks.insert(pk.clone(), pv.clone()).is_err() {
                            return;
                        }
                        match ks.get(&pk) {
                            Ok(Some(v)) if &*v == pv.as_slice() => {}
                            other => {
                                *err.lock().unwrap() = Some(format!("thread {t}: read of own acknowledged write to a private key returned {:?}", other.map(|o| o.map(|v| v.len()))));
                                return;
                            }
                        }
                        last_private = Some(pv);
                    }
                }
                if let Some(pv) = last_private {
                    let pk = format!("private{t}").into_bytes();
                    if ks.get(&pk).ok().flatten().as_deref() == Some(pv.as_slice()) {
                        private_ok.fetch_add(1, Ordering::SeqCst);
                    } else {
                        *err.lock().unwrap() = Some(format!("thread {t}: last acknowledged write to its private key is missing"));
                    }
                }
                events.lock().unwrap().extend(local);
            });
        }
    });
    fjall::verif::set_point_handler(None);
    if let Some(e) = err.into_inner().unwrap() {
        let _ = std::fs::remove_dir_all(dir);
        return Err(e);
    }
    let mut fin = vec![];
    for k in 0..p.hot_keys {
        let g = ks.get(format!("hot{k}")).map_err(|e| format!("{e:?}"))?;
        let id = id_of(g.as_deref());
        // scans agree with the point read after quiescence
        let sc = ks.prefix(format!("hot{k}")).next().map(|g| g.into_inner().map(|(_, v)| v.to_vec())).transpose().map_err(|e| format!("{e:?}"))?;
        if id_of(sc.as_deref()) != id {
            return Err(format!("after all threads finished, scan and get disagree on key hot{k}"));
        }
        fin.push(id);
    }
    let flushes = (ks.table_count().max(tables_before) - tables_before) as u64;
    drop(ks);
    drop(db);
    let _ = std::fs::remove_dir_all(dir);
    Ok(LinHistory { keys: p.hot_keys, events: events.into_inner().unwrap(), fin, flushes })
}

// ------------------------------------------------------------------ C14: write-stall freedom, stepped

/// Parameters of one stepped stall-freedom program (the replay file holds exactly these)
#[derive(Clone, Debug, Serialize, Deserialize)]
pub struct StallParams {
    pub writes: usize,
    pub keyspaces: usize,
    pub memtable: u64,
    pub l0_threshold: u8,
    pub blob: bool,
    pub pos_scale: u64,
    /// per mille chance that worker steps run after a write
    pub step_pm: u32,
    pub seed: u64,
}

#[derive(Default, Debug)]
pub struct StallOut {
    pub flushes: u64,
    pub drains: u64,
    pub max_l0: usize,
    pub steps: u64,
}

/// "The write stall mechanisms always let writers proceed eventually", made decidable without a
/// clock: the worker pool is the unmodified `worker_tick` of a pool of ONE worker, stepped by the
/// harness (0 threads). A writer is blocked while a keyspace has >= 4 sealed memtables or >= 30 L0
/// runs (throttled from 20). Oracle, checked at every point where the harness lets the pool run dry:
/// the queue does run dry within a bound proportional to the work queued (no task is re-queued
/// forever), and once it is dry no keyspace is in a stall condition (sealed memtables == 0, L0
/// runs < 20) — otherwise a writer arriving now would wait for ever. Before every write the harness
/// (like the interpreter) steps the pool while the keyspace is at the sealed-memtable limit; if the
/// pool has nothing queued at that moment the writer could never continue.
pub fn run_stall_case(dir: &Path, p: &StallParams) -> Result<StallOut, String> {
    use crate::real::{open_db, open_ks, OpenOpts};
    use fjall::AbstractTree;
    let _ = std::fs::remove_dir_all(dir);
    let cfg = Cfg {
        flavor: Flavor::Plain,
        journal_lz4: false,
        db_manual_persist: false,
        pos_scale: p.pos_scale,
        ks: vec![],
        filter_mask: 0,
    };
    let kc = KsCfg {
        blob: if p.blob { Some(48) } else { None },
        memtable: p.memtable,
        strategy: Strat::LeveledSmall { l0: p.l0_threshold, target: 4096 },
        manual_persist: false,
    };
    let db = open_db(dir, &cfg, &OpenOpts { workers: 0, lz4: false }).map_err(|e| format!("open: {e:?}"))?;
    let dbi = db.inner().clone();
    let kss: Vec<_> = (0..p.keyspaces.clamp(1, 4)).map(|i| open_ks(&db, NAMES[i], &kc).map_err(|e| format!("{e:?}"))).collect::<Result<_, _>>()?;
    let mut model: Vec<BTreeMap<Vec<u8>, Vec<u8>>> = vec![BTreeMap::new(); kss.len()];
    let mut x = p.seed | 1;
    let mut rnd = move || {
        x ^= x << 13;
        x ^= x >> 7;
        x ^= x << 17;
        x >> 9
    };
    let mut out = StallOut::default();
    let step = |out: &mut StallOut| -> Result<bool, String> {
        let r = dbi.verif_worker_step().map_err(|e| format!("worker step: {e:?}"))?;
        if r {
            out.steps += 1;
        }
        Ok(r)
    };
    let tables = |kss: &Vec<crate::real::KsH>| -> u64 { kss.iter().map(|h| h.ks.tree.table_count() as u64).sum() };
    let mut last_tables = tables(&kss);
    let drain_and_check = |out: &mut StallOut, kss: &Vec<crate::real::KsH>, at: usize| -> Result<(), String> {
        let pending = dbi.verif_pending();
        let bound = 2_000 + 200 * pending as u64;
        let mut n = 0u64;
        while step(out)? {
            n += 1;
            if n > bound {
                return Err(format!(
                    "after write {at}: the worker queue held {pending} tasks and is still not empty after {n} ticks of the single worker ({} queued): a task is re-queued forever, so the work it stands for (compaction) never runs and writers end in the write halt",
                    dbi.verif_pending()
                ));
            }
        }
        out.drains += 1;
        for h in kss {
            let (sealed, l0) = (h.ks.tree.sealed_memtable_count(), h.ks.tree.l0_run_count());
            out.max_l0 = out.max_l0.max(l0);
            if sealed > 0 {
                return Err(format!("after write {at}: the worker pool is idle but keyspace {:?} still has {sealed} sealed memtables (at 4 writers halt for ever)", h.ks.name()));
            }
            if l0 >= 20 {
                return Err(format!("after write {at}: the worker pool is idle but keyspace {:?} has {l0} L0 runs (writers are throttled from 20 and halted at 30, nothing is queued that would reduce them)", h.ks.name()));
            }
        }
        Ok(())
    };
    for i in 0..p.writes {
        let ki = (rnd() % kss.len() as u64) as usize;
        let h = &kss[ki];
        // a writer at the sealed-memtable limit waits for the pool
        let mut guard = 0;
        while h.ks.tree.sealed_memtable_count() >= 3 || h.ks.tree.l0_run_count() >= 19 {
            if !step(&mut out)? {
                return Err(format!(
                    "before write {i}: keyspace {:?} has {} sealed memtables and {} L0 runs but no task is queued: a writer stalls for ever",
                    h.ks.name(),
                    h.ks.tree.sealed_memtable_count(),
                    h.ks.tree.l0_run_count()
                ));
            }
            guard += 1;
            if guard > 5_000 {
                return Err(format!("before write {i}: 5000 worker ticks did not bring keyspace {:?} below the stall limits ({} sealed, {} L0 runs)", h.ks.name(), h.ks.tree.sealed_memtable_count(), h.ks.tree.l0_run_count()));
            }
        }
        let key = format!("k{:03}", rnd() % 60).into_bytes();
        if rnd() % 8 == 0 {
            h.ks.remove(key.clone()).map_err(|e| format!("remove: {e:?}"))?;
            model[ki].remove(&key);
        } else {
            let len = 20 + (rnd() % 500) as usize;
            let v = vec![b'a' + (i % 26) as u8; len];
            h.ks.insert(key.clone(), v.clone()).map_err(|e| format!("insert: {e:?}"))?;
            model[ki].insert(key, v);
        }
        if (rnd() % 1000) < u64::from(p.step_pm) {
            for _ in 0..1 + rnd() % 4 {
                step(&mut out)?;
            }
        }
        if i % 40 == 39 {
            drain_and_check(&mut out, &kss, i)?;
            let t = tables(&kss);
            out.flushes += t.saturating_sub(last_tables);
            last_tables = t;
        }
    }
    drain_and_check(&mut out, &kss, p.writes)?;
    for (ki, h) in kss.iter().enumerate() {
        let got: BTreeMap<Vec<u8>, Vec<u8>> = h
            .ks
            .iter()
            .map(|g| g.into_inner().map(|(k, v)| (k.to_vec(), v.to_vec())))
            .collect::<Result<_, _>>()
            .map_err(|e| format!("scan: {e:?}"))?;
        if got != model[ki] {
            return Err(format!("final content of keyspace {:?} differs from the acknowledged writes ({} vs {} keys)", h.ks.name(), got.len(), model[ki].len()));
        }
    }
    drop(kss);
    drop(db);
    let _ = std::fs::remove_dir_all(dir);
    Ok(out)
}

// ------------------------------------------------------------------ C03: all-or-nothing across a reopen, writers vs workers

#[derive(Clone, Debug, Serialize, Deserialize)]
pub struct ReopenParams {
    pub flavor: Flavor,
    pub writers: usize,
    pub keyspaces: usize,
    pub keys_per_writer: usize,
    pub batches: u64,
    pub workers: usize,
    pub memtable: u64,
    pub delay_seed: u64,
}

pub fn reopen_params(seed: u64) -> ReopenParams {
    let mut x = seed | 1;
    let mut next = move || {
        x ^= x << 13;
        x ^= x >> 7;
        x ^= x << 17;
        x >> 7
    };
    ReopenParams {
        flavor: [Flavor::Plain, Flavor::SingleWriter, Flavor::Optimistic][(next() % 3) as usize],
        writers: 2 + (next() % 3) as usize,
        keyspaces: 2 + (next() % 2) as usize,
        keys_per_writer: 2 + (next() % 5) as usize,
        batches: 30 + next() % 60,
        workers: 1 + (next() % 3) as usize,
        memtable: [256u64, 700, 2048][(next() % 3) as usize],
        delay_seed: next(),
    }
}

/// Writer threads commit numbered batches / transactions (the same value into every key of the
/// writer's key set, which spans keyspaces) while real workers rotate, flush and compact tiny
/// memtables and the journal rotates; then everything is dropped and the directory reopened.
/// Oracle (C03 for batches that were being committed while background work changed which part of
/// the journal is still needed): after the reopen every writer's key set shows ONE batch number in
/// all keys and keyspaces, and it is the last acknowledged one. Returns (non-trivial, flushes).
pub fn threaded_c03(dir: &Path, p: &ReopenParams) -> Result<(bool, u64), String> {
    use crate::real::{open_db, open_ks, OpenOpts};
    let _ = std::fs::remove_dir_all(dir);
    let cfg = Cfg { flavor: p.flavor, journal_lz4: false, db_manual_persist: false, pos_scale: 64_000, ks: vec![], filter_mask: 0 };
    let kc = KsCfg { blob: None, memtable: p.memtable, strategy: Strat::LeveledSmall { l0: 2, target: 4096 }, manual_persist: false };
    let keys: Vec<Vec<(usize, Vec<u8>)>> = (0..p.writers)
        .map(|w| (0..p.keys_per_writer).map(|j| ((w + j) % p.keyspaces, format!("w{w}k{j}").into_bytes())).collect())
        .collect();
    let flushes;
    {
        let db = open_db(dir, &cfg, &OpenOpts { workers: p.workers, lz4: false }).map_err(|e| format!("open: {e:?}"))?;
        let kss: Vec<crate::real::KsH> = (0..p.keyspaces).map(|i| open_ks(&db, NAMES[i], &kc).map_err(|e| format!("{e:?}"))).collect::<Result<_, _>>()?;
        let err: Mutex<Option<String>> = Mutex::new(None);
        install_delays(p.delay_seed);
        std::thread::scope(|s| {
            for w in 0..p.writers {
                let (db, kss, keys, err) = (&db, &kss, &keys, &err);
                s.spawn(move || {
                    for b in 1..=p.batches {
                        let val = format!("{w}:{b}:{}", "y".repeat(((b * 29 + w as u64 * 13) % 150) as usize)).into_bytes();
                        let r: Result<(), String> = match db {
                            crate::real::DbH::Plain(d) => {
                                let mut bt = d.batch();
                                for (ks, k) in &keys[w] {
                                    bt.insert(&kss[*ks].ks, k.clone(), val.clone());
                                }
                                bt.commit().map_err(|e| format!("{e:?}"))
                            }
                            crate::real::DbH::Single(d) => {
                                let mut tx = d.write_tx();
                                for (ks, k) in &keys[w] {
                                    tx.insert(kss[*ks].sw.as_ref().unwrap(), k.clone(), val.clone());
                                }
                                tx.commit().map_err(|e| format!("{e:?}"))
                            }
                            crate::real::DbH::Opt(d) => (|| {
                                let mut tx = d.write_tx().map_err(|e| format!("{e:?}"))?;
                                for (ks, k) in &keys[w] {
                                    tx.insert(&kss[*ks].ks, k.clone(), val.clone());
                                }
                                tx.commit().map_err(|e| format!("{e:?}"))?.map_err(|_| "blind-write transaction conflicted".to_string())
                            })(),
                        };
                        if let Err(e) = r {
                            *err.lock().unwrap() = Some(format!("writer {w} batch {b}: {e}"));
                            break;
                        }
                    }
                });
            }
        });
        fjall::verif::set_point_handler(None);
        use fjall::AbstractTree;
        flushes = kss.iter().map(|h| h.ks.tree.table_count() as u64).sum::<u64>();
        drop(kss);
        drop(db);
        if let Some(e) = err.into_inner().unwrap() {
            let _ = std::fs::remove_dir_all(dir);
            return Err(format!("INCONCLUSIVE: {e}"));
        }
    }
    let res = (|| -> Result<(), String> {
        let db = open_db(dir, &cfg, &OpenOpts { workers: 0, lz4: false }).map_err(|e| format!("reopen after the threaded run failed: {e:?}"))?;
        let kss: Vec<crate::real::KsH> = (0..p.keyspaces).map(|i| open_ks(&db, NAMES[i], &kc).map_err(|e| format!("{e:?}"))).collect::<Result<_, _>>()?;
        for w in 0..p.writers {
            let mut row = vec![];
            for (ks, k) in &keys[w] {
                let v = kss[*ks].ks.get(k).map_err(|e| format!("{e:?}"))?;
                row.push(parse_b(w, v.as_deref()));
            }
            if row.iter().any(|b| *b != row[0]) {
                return Err(format!(
                    "after reopen the key set of writer {w} (keys over keyspaces {:?}) shows batch numbers {row:?}: a batch was recovered partially",
                    keys[w].iter().map(|(ks, _)| NAMES[*ks]).collect::<Vec<_>>()
                ));
            }
            if row[0] != p.batches {
                return Err(format!("after a clean drop and reopen writer {w}'s keys show batch {} but batch {} was the last acknowledged one", row[0], p.batches));
            }
        }
        Ok(())
    })();
    let _ = std::fs::remove_dir_all(dir);
    res.map(|()| (flushes >= 1 && p.keys_per_writer >= 2, flushes))
}

pub fn shard_c14(tier: &str, seed: u64, shard: u32, cases: u32) -> ShardOut {
    silence_panics();
    let mut o = ShardOut::default();
    let base = scratch_root().join(format!("c14s{shard}"));
    std::fs::create_dir_all(&base).ok();
    let mut rng = seed ^ (u64::from(shard) << 38) ^ 0xc14c_14c1;
    let mut next = move || {
        rng ^= rng << 13;
        rng ^= rng >> 7;
        rng ^= rng << 17;
        rng
    };
    let _ = tier;
    for ci in 0..cases {
        if ci % 25 == 24 {
            // stepped stall-freedom program (deterministic; see run_stall_case)
            let sp = StallParams {
                writes: 200 + (next() % 500) as usize,
                keyspaces: 1 + (next() % 3) as usize,
                memtable: [256u64, 600, 1500][(next() % 3) as usize],
                l0_threshold: 2 + (next() % 3) as u8,
                blob: next() % 4 == 0,
                pos_scale: if next() % 2 == 0 { 64_000 } else { 1 },
                step_pm: [0u32, 100, 400, 900][(next() % 4) as usize],
                seed: next(),
            };
            o.evaluations += 1;
            phase(&format!("C14 stall {}", serde_json::to_string(&sp).unwrap_or_default()));
            match run_stall_case(&base.join("stall"), &sp) {
                Ok(so) => {
                    *o.stats.entry("stall_programs".into()).or_insert(0) += 1;
                    *o.stats.entry("stall_worker_ticks".into()).or_insert(0) += so.steps;
                    *o.stats.entry("stall_idle_points_checked".into()).or_insert(0) += so.drains;
                    *o.stats.entry("stall_tables_written".into()).or_insert(0) += so.flushes;
                    let e = o.stats.entry("stall_max_l0_runs_seen".into()).or_insert(0);
                    *e = (*e).max(so.max_l0 as u64);
                    // non-trivial: more flushes than the halt limit would allow without compaction
                    if so.steps >= 40 {
                        o.nt_hashes.push(case_hash(&serde_json::to_string(&sp).unwrap_or_default()));
                        *o.stats.entry("stall_programs_beyond_halt_limit".into()).or_insert(0) += 1;
                    }
                }
                Err(e) => {
                    o.failure = Some(FailureOut { case: json!({"property": "C14", "kind": "stall", "params": sp, "failure": {"msg": e}}), msg: e, step: 0, original_msg: String::new() });
                    break;
                }
            }
            continue;
        }
        let threads = 2 + (next() % 7) as usize;
        let hot = 2 + (next() % 4) as usize;
        // keep <= ~24 operations per hot key
        let ops = ((22 * hot) / threads).clamp(4, 30);
        let p = LinParams {
            threads,
            hot_keys: hot,
            ops_per_thread: ops,
            workers: 1 + (next() % 4) as usize,
            memtable: [256u64, 512, 1024, 4096][(next() % 4) as usize],
            blob: next() % 4 == 0,
            delay_seed: next(),
            seed: next(),
        };
        o.evaluations += 1;
        phase(&format!("C14 history {}", serde_json::to_string(&p).unwrap_or_default()));
        let t0 = std::time::Instant::now();
        match run_lin_history(&base.join("db"), &p) {
            Err(e) => {
                o.failure = Some(FailureOut { case: json!({"property": "C14", "kind": "run-error", "params": p, "failure": {"msg": e}}), msg: e, step: 0, original_msg: String::new() });
                break;
            }
            Ok(h) => {
                if t0.elapsed().as_secs() > 60 {
                    o.inconclusive = Some("a history took more than 60 s (stall?)".into());
                }
                *o.stats.entry("operations".into()).or_insert(0) += h.events.len() as u64;
                *o.stats.entry("flushes_during_histories".into()).or_insert(0) += h.flushes;
                let hv = serde_json::to_value(&h).unwrap();
                match check_lin_history(&hv) {
                    Ok(()) => {
                        // non-trivial: two ops on the same key overlapping in time, one a write, and a flush happened
                        let overlap = h.events.iter().any(|a| matches!(a.op, LinOp::W(_)) && h.events.iter().any(|b| b.key == a.key && (b.thread, b.call) != (a.thread, a.call) && b.call < a.ret && a.call < b.ret));
                        if overlap {
                            *o.stats.entry("histories_with_overlapping_write".into()).or_insert(0) += 1;
                        }
                        if overlap && h.flushes >= 1 {
                            o.nt_hashes.push(case_hash(&hv.to_string()));
                            if o.samples.is_empty() {
                                o.samples.push(json!({"params": p, "first_events": h.events.iter().take(12).collect::<Vec<_>>()}));
                            }
                        }
                    }
                    Err(e) if e.starts_with("INCONCLUSIVE") => {
                        *o.stats.entry("inconclusive_histories".into()).or_insert(0) += 1;
                    }
                    Err(e) => {
                        o.failure = Some(FailureOut { case: json!({"property": "C14", "kind": "history", "params": p, "history": hv, "failure": {"msg": e}}), msg: e, step: 0, original_msg: String::new() });
                        break;
                    }
                }
            }
        }
    }
    let _ = std::fs::remove_dir_all(&base);
    o
}

pub fn replay_c14(v: &serde_json::Value, _e: &BTreeSet<String>) -> Option<String> {
    match v.get("kind").and_then(|k| k.as_str()) {
        Some("history") => check_lin_history(v.get("history")?).err().filter(|e| !e.starts_with("INCONCLUSIVE")),
        Some("stall") => {
            let sp: StallParams = serde_json::from_value(v.get("params")?.clone()).ok()?;
            run_stall_case(&scratch_root().join(format!("c14-replay-{}", std::process::id())), &sp).err()
        }
        _ => None,
    }
}

pub const C14_RULE: &str = "histories = 2-8 threads on cloned handles, per-thread programs of insert (globally unique value), remove, get, contains_key on 2-5 hot keys plus acknowledged writes to a private key per thread (read back immediately and at the end), memtables of 256 B-4 KiB so rotations, flushes and compactions overlap continuously, 1-4 real worker threads, journal rotation via position scale, seeded delays at the write-path pause points, kv-separated keyspaces in a quarter of the histories; every call and return draws a ticket from one atomic counter; oracle = per-key register linearizability (Wing-Gong search with memoisation) of the time-stamped history including the final value read after all threads joined, scan = point read after quiescence, own acknowledged private writes present; non-trivial = >= 2 operations on the same key overlapping in time, one of them a write, and >= 1 flush completed during the run; distinct by history hash";

// ------------------------------------------------------------------ threaded parts of C07 / C08

/// Optimistic transactions from several threads; the recorded history goes through the exact
/// strict-serializability checker. Returns (non-trivial?, failure)
pub fn threaded_c07(dir: &Path, seed: u64) -> Result<(bool, serde_json::Value), (String, serde_json::Value)> {
    use crate::interp::{Outcome, TxEvent, TxRec};
    use crate::model::{ReadRes, State};
    use fjall::{KeyspaceCreateOptions, OptimisticTxDatabase};
    let _ = std::fs::remove_dir_all(dir);
    let db = OptimisticTxDatabase::builder(dir).worker_threads(2).open().map_err(|e| (format!("open: {e:?}"), json!(null)))?;
    let ks = db.keyspace("a", || KeyspaceCreateOptions::default().max_memtable_size(512)).map_err(|e| (format!("{e:?}"), json!(null)))?;
    let clock = std::sync::atomic::AtomicU64::new(1);
    let recs: Mutex<Vec<TxRec>> = Mutex::new(vec![]);
    let err: Mutex<Option<String>> = Mutex::new(None);
    install_delays(seed ^ 0x77);
    let threads = 2 + (seed % 3) as usize;
    let txs_per_thread = 3;
    std::thread::scope(|s| {
        for t in 0..threads {
            let (db, ks, clock, recs, err) = (&db, &ks, &clock, &recs, &err);
            s.spawn(move || {
                let mut x = seed ^ ((t as u64 + 1) * 0x9E37_79B9_7F4A_7C15);
                let mut rnd = move || {
                    x ^= x << 13;
                    x ^= x >> 7;
                    x ^= x << 17;
                    x
                };
                for i in 0..txs_per_thread {
                    let begin = clock.fetch_add(1, Ordering::SeqCst);
                    let mut tx = match db.write_tx() {
                        Ok(t) => t,
                        Err(e) => {
                            *err.lock().unwrap() = Some(format!("{e:?}"));
                            return;
                        }
                    };
                    let mut events = vec![];
                    let nops = 2 + rnd() % 3;
                    for _ in 0..nops {
                        let key = B::L(vec![b'a' + (rnd() % 4) as u8]);
                        match rnd() % 7 {
                            0 | 1 => {
                                let r = Read::Get(key.clone());
                                match tx.get(ks.inner(), key.mat()) {
                                    Ok(v) => events.push(TxEvent::Read { ks: "a".into(), r, res: ReadRes::Val(v.map(|v| v.to_vec())) }),
                                    Err(e) => {
                                        *err.lock().unwrap() = Some(format!("{e:?}"));
                                        return;
                                    }
                                }
                            }
                            2 => {
                                let r = Read::SizeOf(key.clone());
                                match tx.size_of(ks.inner(), key.mat()) {
                                    Ok(v) => events.push(TxEvent::Read { ks: "a".into(), r, res: ReadRes::Size(v) }),
                                    Err(e) => {
                                        *err.lock().unwrap() = Some(format!("{e:?}"));
                                        return;
                                    }
                                }
                            }
                            3 => {
                                let r = Read::Len;
                                match tx.len(ks.inner()) {
                                    Ok(v) => events.push(TxEvent::Read { ks: "a".into(), r, res: ReadRes::Len(v) }),
                                    Err(e) => {
                                        *err.lock().unwrap() = Some(format!("{e:?}"));
                                        return;
                                    }
                                }
                            }
                            4 => {
                                tx.remove(ks.inner(), key.mat());
                                events.push(TxEvent::Write { ks: "a".into(), w: TxW::Remove(key), ret: None });
                            }
                            _ => {
                                let v = B::L(format!("t{t}i{i}n{}", rnd() % 1000).into_bytes());
                                tx.insert(ks.inner(), key.mat(), v.mat());
                                events.push(TxEvent::Write { ks: "a".into(), w: TxW::Insert(key, v), ret: None });
                            }
                        }
                    }
                    let outcome = match tx.commit() {
                        Ok(Ok(())) => Outcome::Committed,
                        Ok(Err(_)) => Outcome::Conflict,
                        Err(e) => {
                            *err.lock().unwrap() = Some(format!("{e:?}"));
                            return;
                        }
                    };
                    let end = clock.fetch_add(1, Ordering::SeqCst);
                    recs.lock().unwrap().push(TxRec { id: (t * 100 + i) as u64, begin, end, outcome, events });
                }
            });
        }
    });
    fjall::verif::set_point_handler(None);
    if let Some(e) = err.into_inner().unwrap() {
        return Err((e, json!(null)));
    }
    let mut fin = State::new();
    let mut m = Map::new();
    for g in ks.inner().iter() {
        let (k, v) = g.into_inner().map_err(|e| (format!("{e:?}"), json!(null)))?;
        m.insert(k.to_vec(), v.to_vec());
    }
    fin.insert("a".into(), m);
    let recs = recs.into_inner().unwrap();
    drop(ks);
    drop(db);
    let _ = std::fs::remove_dir_all(dir);
    let mut base = State::new();
    base.insert("a".into(), Map::new());
    let hist = serde_json::to_value(&recs).unwrap();
    let nt = crate::ser::count_rw_overlaps(&recs) > 0;
    match crate::ser::check_ser(&base, &recs, &fin, 400_000) {
        crate::ser::SerResult::Ok(_) | crate::ser::SerResult::Inconclusive => Ok((nt, hist)),
        crate::ser::SerResult::Fail(msg) => {
            let flat: Vec<(Vec<u8>, Vec<u8>)> = fin["a"].iter().map(|(k, v)| (k.clone(), v.clone())).collect();
            Err((format!("threaded history: {msg}"), json!({"recs": hist, "final_a": flat})))
        }
    }
}

/// Single-writer exclusion: read-modify-write transactions from several threads on shared counters
pub fn threaded_c08(dir: &Path, seed: u64) -> Result<bool, String> {
    use fjall::{KeyspaceCreateOptions, SingleWriterTxDatabase};
    let _ = std::fs::remove_dir_all(dir);
    let db = SingleWriterTxDatabase::builder(dir).worker_threads(2).open().map_err(|e| format!("open: {e:?}"))?;
    let ks = db.keyspace("a", || KeyspaceCreateOptions::default().max_memtable_size(512)).map_err(|e| format!("{e:?}"))?;
    install_delays(seed ^ 0x88);
    let threads = 2 + (seed % 4) as usize;
    let per = 25usize;
    let err: Mutex<Option<String>> = Mutex::new(None);
    let committed: Vec<AtomicUsize> = (0..2).map(|_| AtomicUsize::new(0)).collect();
    std::thread::scope(|s| {
        for t in 0..threads {
            let (db, ks, err, committed) = (&db, &ks, &err, &committed);
            s.spawn(move || {
                for i in 0..per {
                    let c = (t + i) % 2;
                    let key = format!("ctr{c}");
                    let res: Result<(), String> = (|| {
                        if i % 3 == 0 {
                            // helper (its own transaction)
                            ks.fetch_update(key.clone(), |v| {
                                let n: u64 = v.map_or(0, |v| String::from_utf8_lossy(v).parse().unwrap_or(0));
                                Some((n + 1).to_string().into_bytes().into())
                            })
                            .map_err(|e| format!("{e:?}"))?;
                        } else {
                            let mut tx = db.write_tx();
                            let n: u64 = tx.get(ks, &key).map_err(|e| format!("{e:?}"))?.map_or(0, |v| String::from_utf8_lossy(&v).parse().unwrap_or(0));
                            if i % 5 == 4 {
                                tx.rollback();
                                return Ok(());
                            }
                            tx.insert(ks, key.clone(), (n + 1).to_string());
                            tx.commit().map_err(|e| format!("{e:?}"))?;
                        }
                        committed[c].fetch_add(1, Ordering::SeqCst);
                        Ok(())
                    })();
                    if let Err(e) = res {
                        *err.lock().unwrap() = Some(e);
                        return;
                    }
                }
            });
        }
    });
    fjall::verif::set_point_handler(None);
    if let Some(e) = err.into_inner().unwrap() {
        return Err(e);
    }
    for c in 0..2 {
        let got: u64 = ks.get(format!("ctr{c}")).map_err(|e| format!("{e:?}"))?.map_or(0, |v| String::from_utf8_lossy(&v).parse().unwrap_or(0));
        let want = committed[c].load(Ordering::SeqCst) as u64;
        if got != want {
            return Err(format!("single-writer transactions lost an update: counter ctr{c} = {got} after {want} committed increments from {threads} threads"));
        }
    }
    // blocked-second-writer probe (positive evidence only): while one write transaction is open,
    // no other write transaction and no single-operation helper may complete
    for kind in 0..6u8 {
        let phase = AtomicUsize::new(0);
        let bad: Mutex<Option<String>> = Mutex::new(None);
        std::thread::scope(|s| {
            let (db, ks, phase) = (&db, &ks, &phase);
            s.spawn(move || {
                let mut tx = db.write_tx();
                phase.store(1, Ordering::SeqCst);
                std::thread::sleep(std::time::Duration::from_millis(25));
                tx.insert(ks, "probe", "a");
                phase.store(2, Ordering::SeqCst);
                let _ = tx.commit();
            });
            let bad = &bad;
            s.spawn(move || {
                while phase.load(Ordering::SeqCst) == 0 {
                    std::thread::yield_now();
                }
                let what = match kind {
                    0 => {
                        let _ = ks.insert("probe2", "b");
                        "SingleWriterTxKeyspace::insert"
                    }
                    1 => {
                        let _ = ks.remove("probe2");
                        "SingleWriterTxKeyspace::remove"
                    }
                    2 => {
                        let _ = ks.fetch_update("probe2", |_| Some("c".as_bytes().into()));
                        "SingleWriterTxKeyspace::fetch_update"
                    }
                    3 => {
                        let _ = ks.update_fetch("probe2", |_| Some("d".as_bytes().into()));
                        "SingleWriterTxKeyspace::update_fetch"
                    }
                    4 => {
                        let _ = ks.take("probe2");
                        "SingleWriterTxKeyspace::take"
                    }
                    _ => {
                        let tx2 = db.write_tx();
                        drop(tx2);
                        "a second write_tx()"
                    }
                };
                if phase.load(Ordering::SeqCst) == 1 {
                    *bad.lock().unwrap() = Some(format!("{what} completed while another write transaction of the single-writer database was still open"));
                }
            });
        });
        if let Some(e) = bad.into_inner().unwrap() {
            return Err(e);
        }
    }
    drop(ks);
    drop(db);
    let _ = std::fs::remove_dir_all(dir);
    Ok(threads >= 2)
}
