// LD_PRELOAD interposer for the crash / fault engine (E2).
//
// Counts every file-mutating libc call on paths under FJSHIM_ROOT, logs them, and can
//  - kill the process (SIGKILL) before call n, or after performing only the first t bytes of write n
//  - make call n fail (EIO / ENOSPC / short write followed by ENOSPC), one-shot or sticky
//
// Environment:
//   FJSHIM_ROOT   directory prefix to track
//   FJSHIM_LOG    log file (appended): "<seq> <op> <path> <off> <len> <ret>\n"
//   FJSHIM_SCOPE  "all" (default) | "jnl" (only calls on *.jnl files are counted for kill/fail)
//   FJSHIM_KILL   "n" or "n:t"
//   FJSHIM_FAIL   "n:kind:sticky"   kind = eio_write | enospc_write | short_enospc | eio_sync | short_only ; sticky = 0|1
//
// Build: gcc -O2 -shared -fPIC -o fjshim.so fjshim.c -ldl -lpthread
#define _GNU_SOURCE
#include <dlfcn.h>
#include <errno.h>
#include <fcntl.h>
#include <pthread.h>
#include <signal.h>
#include <stdarg.h>
#include <stdio.h>
#include <stdlib.h>
#include <string.h>
#include <sys/stat.h>
#include <sys/syscall.h>
#include <sys/types.h>
#include <sys/uio.h>
#include <unistd.h>

#define MAXFD 8192
static char *fdpath[MAXFD];
static pthread_mutex_t mu = PTHREAD_MUTEX_INITIALIZER;
static int inited = 0;
static char root[1024];
static size_t rootlen = 0;
static int logfd = -1;
static int scope_jnl = 0;
static long kill_n = -1, kill_t = -1;
static long fail_n = -1;
static int fail_kind = 0;  // 1 eio_write 2 enospc_write 3 short_enospc 4 eio_sync
static int fail_sticky = 0;
static int fail_fired = 0;
static long fail_delay_ms = 0; // FJSHIM_FAIL_DELAY_MS: sleep inside the first failing call (after logging it)
static long seq_all = 0;   // all tracked calls
static long seq_scoped = 0; // calls in scope (used for kill/fail index)

static int (*r_open)(const char *, int, ...);
static int (*r_open64)(const char *, int, ...);
static int (*r_openat)(int, const char *, int, ...);
static int (*r_openat64)(int, const char *, int, ...);
static int (*r_creat)(const char *, mode_t);
static int (*r_close)(int);
static ssize_t (*r_write)(int, const void *, size_t);
static ssize_t (*r_pwrite)(int, const void *, size_t, off_t);
static ssize_t (*r_pwrite64)(int, const void *, size_t, off64_t);
static ssize_t (*r_writev)(int, const struct iovec *, int);
static int (*r_ftruncate)(int, off_t);
static int (*r_ftruncate64)(int, off64_t);
static int (*r_fsync)(int);
static int (*r_fdatasync)(int);
static int (*r_rename)(const char *, const char *);
static int (*r_renameat)(int, const char *, int, const char *);
static int (*r_unlink)(const char *);
static int (*r_unlinkat)(int, const char *, int);
static int (*r_mkdir)(const char *, mode_t);
static int (*r_mkdirat)(int, const char *, mode_t);
static int (*r_rmdir)(const char *);
static int (*r_link)(const char *, const char *);
static int (*r_fallocate)(int, int, off_t, off_t);
static int (*r_posix_fallocate)(int, off_t, off_t);

static void init(void) {
  if (inited) return;
  inited = 1;
  r_open = dlsym(RTLD_NEXT, "open");
  r_open64 = dlsym(RTLD_NEXT, "open64");
  r_openat = dlsym(RTLD_NEXT, "openat");
  r_openat64 = dlsym(RTLD_NEXT, "openat64");
  r_creat = dlsym(RTLD_NEXT, "creat");
  r_close = dlsym(RTLD_NEXT, "close");
  r_write = dlsym(RTLD_NEXT, "write");
  r_pwrite = dlsym(RTLD_NEXT, "pwrite");
  r_pwrite64 = dlsym(RTLD_NEXT, "pwrite64");
  r_writev = dlsym(RTLD_NEXT, "writev");
  r_ftruncate = dlsym(RTLD_NEXT, "ftruncate");
  r_ftruncate64 = dlsym(RTLD_NEXT, "ftruncate64");
  r_fsync = dlsym(RTLD_NEXT, "fsync");
  r_fdatasync = dlsym(RTLD_NEXT, "fdatasync");
  r_rename = dlsym(RTLD_NEXT, "rename");
  r_renameat = dlsym(RTLD_NEXT, "renameat");
  r_unlink = dlsym(RTLD_NEXT, "unlink");
  r_unlinkat = dlsym(RTLD_NEXT, "unlinkat");
  r_mkdir = dlsym(RTLD_NEXT, "mkdir");
  r_mkdirat = dlsym(RTLD_NEXT, "mkdirat");
  r_rmdir = dlsym(RTLD_NEXT, "rmdir");
  r_link = dlsym(RTLD_NEXT, "link");
  r_fallocate = dlsym(RTLD_NEXT, "fallocate");
  r_posix_fallocate = dlsym(RTLD_NEXT, "posix_fallocate");
  const char *r = getenv("FJSHIM_ROOT");
  if (r) {
    strncpy(root, r, sizeof(root) - 1);
    rootlen = strlen(root);
  }
  const char *l = getenv("FJSHIM_LOG");
  if (l) logfd = (int)syscall(SYS_openat, AT_FDCWD, l, O_WRONLY | O_CREAT | O_APPEND, 0644);
  const char *s = getenv("FJSHIM_SCOPE");
  if (s && strcmp(s, "jnl") == 0) scope_jnl = 1;
  const char *k = getenv("FJSHIM_KILL");
  if (k && *k) {
    kill_n = atol(k);
    const char *c = strchr(k, ':');
    if (c) kill_t = atol(c + 1);
  }
  const char *fd = getenv("FJSHIM_FAIL_DELAY_MS");
  if (fd && *fd) fail_delay_ms = atol(fd);
  const char *f = getenv("FJSHIM_FAIL");
  if (f && *f) {
    char kind[64] = {0};
    int st = 0;
    long n = -1;
    if (sscanf(f, "%ld:%63[^:]:%d", &n, kind, &st) >= 2) {
      fail_n = n;
      fail_sticky = st;
      if (!strcmp(kind, "eio_write")) fail_kind = 1;
      else if (!strcmp(kind, "enospc_write")) fail_kind = 2;
      else if (!strcmp(kind, "short_enospc")) fail_kind = 3;
      else if (!strcmp(kind, "eio_sync")) fail_kind = 4;
      else if (!strcmp(kind, "short_only")) fail_kind = 5;
    }
  }
}

static int under_root(const char *p) {
  return rootlen > 0 && p && strncmp(p, root, rootlen) == 0;
}

static int is_jnl(const char *p) {
  size_t n = p ? strlen(p) : 0;
  return n > 4 && strcmp(p + n - 4, ".jnl") == 0;
}

static void resolve_at(int dirfd, const char *path, char *out, size_t n) {
  if (!path) {
    out[0] = 0;
    return;
  }
  if (path[0] == '/' || dirfd == AT_FDCWD) {
    if (path[0] == '/') {
      snprintf(out, n, "%s", path);
    } else {
      char cwd[1024];
      if (getcwd(cwd, sizeof cwd)) snprintf(out, n, "%s/%s", cwd, path);
      else snprintf(out, n, "%s", path);
    }
    return;
  }
  if (dirfd >= 0 && dirfd < MAXFD && fdpath[dirfd]) {
    snprintf(out, n, "%s/%s", fdpath[dirfd], path);
    return;
  }
  char link[64], buf[1024];
  snprintf(link, sizeof link, "/proc/self/fd/%d", dirfd);
  ssize_t k = readlink(link, buf, sizeof buf - 1);
  if (k > 0) {
    buf[k] = 0;
    snprintf(out, n, "%s/%s", buf, path);
  } else {
    snprintf(out, n, "%s", path);
  }
}

static void logline(long seq, const char *op, const char *path, long long off, long long len, long long ret) {
  if (logfd < 0) return;
  char b[1400];
  int n = snprintf(b, sizeof b, "%ld %s %s %lld %lld %lld\n", seq, op, path ? path : "-", off, len, ret);
  if (n > 0) syscall(SYS_write, logfd, b, (size_t)n);
}

static void die(void) {
  // a real crash: nothing buffered in user space survives
  syscall(SYS_kill, syscall(SYS_getpid), SIGKILL);
  for (;;) pause();
}

// Called with mu held, before a tracked call on `path`. Returns the scoped index of this call
// (or -1 if not in scope) and kills the process if this is the kill point (without torn part).
static long pre_call(const char *op, const char *path, int is_write, long long off, long long len) {
  seq_all++;
  long idx = -1;
  if (!scope_jnl || is_jnl(path)) {
    idx = seq_scoped++;
  }
  if (idx >= 0 && idx == kill_n && !(is_write && kill_t >= 0)) {
    logline(seq_all - 1, "KILL", path, off, len, 0);
    die();
  }
  (void)op;
  return idx;
}

static int fail_now(long idx, int is_write, int is_sync) {
  if (fail_kind == 0 || idx < 0) return 0;
  int applies = (is_write && (fail_kind <= 3 || fail_kind == 5)) || (is_sync && fail_kind == 4);
  if (!applies) return 0;
  if (idx == fail_n || (fail_sticky && fail_fired && idx > fail_n)) {
    fail_fired = 1;
    return fail_kind;
  }
  return 0;
}

static void track(int fd, const char *path) {
  if (fd >= 0 && fd < MAXFD) {
    free(fdpath[fd]);
    fdpath[fd] = path ? strdup(path) : NULL;
  }
}

static long long cur_off(int fd, int flags_append) {
  if (flags_append) {
    struct stat st;
    if (fstat(fd, &st) == 0) return st.st_size;
  }
  return (long long)lseek(fd, 0, SEEK_CUR);
}

static int fd_is_append(int fd) {
  int fl = fcntl(fd, F_GETFL);
  return fl >= 0 && (fl & O_APPEND);
}

// ---------------------------------------------------------------- open family
static int do_open(int which, int dirfd, const char *path, int flags, mode_t mode) {
  init();
  char full[1200];
  resolve_at(dirfd, path, full, sizeof full);
  int tracked = under_root(full);
  int creating = (flags & O_CREAT) || (flags & O_TRUNC);
  if (tracked && creating) {
    pthread_mutex_lock(&mu);
    pre_call("open", full, 0, 0, 0);
    int fd;
    switch (which) {
      case 0: fd = r_open(path, flags, mode); break;
      case 1: fd = r_open64(path, flags, mode); break;
      case 2: fd = r_openat(dirfd, path, flags, mode); break;
      default: fd = r_openat64(dirfd, path, flags, mode); break;
    }
    logline(seq_all - 1, "open", full, flags, 0, fd);
    if (fd >= 0) track(fd, full);
    pthread_mutex_unlock(&mu);
    return fd;
  }
  int fd;
  switch (which) {
    case 0: fd = r_open(path, flags, mode); break;
    case 1: fd = r_open64(path, flags, mode); break;
    case 2: fd = r_openat(dirfd, path, flags, mode); break;
    default: fd = r_openat64(dirfd, path, flags, mode); break;
  }
  if (fd >= 0) {
    pthread_mutex_lock(&mu);
    track(fd, tracked ? full : NULL);
    pthread_mutex_unlock(&mu);
  }
  return fd;
}

int open(const char *path, int flags, ...) {
  mode_t mode = 0;
  if (flags & (O_CREAT | O_TMPFILE)) {
    va_list ap;
    va_start(ap, flags);
    mode = va_arg(ap, mode_t);
    va_end(ap);
  }
  return do_open(0, AT_FDCWD, path, flags, mode);
}
int open64(const char *path, int flags, ...) {
  mode_t mode = 0;
  if (flags & (O_CREAT | O_TMPFILE)) {
    va_list ap;
    va_start(ap, flags);
    mode = va_arg(ap, mode_t);
    va_end(ap);
  }
  return do_open(1, AT_FDCWD, path, flags, mode);
}
int openat(int dirfd, const char *path, int flags, ...) {
  mode_t mode = 0;
  if (flags & (O_CREAT | O_TMPFILE)) {
    va_list ap;
    va_start(ap, flags);
    mode = va_arg(ap, mode_t);
    va_end(ap);
  }
  return do_open(2, dirfd, path, flags, mode);
}
int openat64(int dirfd, const char *path, int flags, ...) {
  mode_t mode = 0;
  if (flags & (O_CREAT | O_TMPFILE)) {
    va_list ap;
    va_start(ap, flags);
    mode = va_arg(ap, mode_t);
    va_end(ap);
  }
  return do_open(3, dirfd, path, flags, mode);
}
int creat(const char *path, mode_t mode) { return do_open(0, AT_FDCWD, path, O_CREAT | O_WRONLY | O_TRUNC, mode); }

int close(int fd) {
  init();
  pthread_mutex_lock(&mu);
  track(fd, NULL);
  pthread_mutex_unlock(&mu);
  return r_close(fd);
}

// ---------------------------------------------------------------- writes
static ssize_t do_write(int fd, const void *buf, size_t len, long long off, int positional) {
  const char *p = (fd >= 0 && fd < MAXFD) ? fdpath[fd] : NULL;
  if (!p) {
    return positional ? r_pwrite64(fd, buf, len, off) : r_write(fd, buf, len);
  }
  pthread_mutex_lock(&mu);
  p = fdpath[fd];
  if (!p) {
    pthread_mutex_unlock(&mu);
    return positional ? r_pwrite64(fd, buf, len, off) : r_write(fd, buf, len);
  }
  long long at = positional ? off : cur_off(fd, fd_is_append(fd));
  long idx = pre_call("write", p, 1, at, (long long)len);
  if (idx >= 0 && idx == kill_n && kill_t >= 0) {
    size_t t = (size_t)kill_t < len ? (size_t)kill_t : len;
    ssize_t w = 0;
    if (t > 0) w = positional ? r_pwrite64(fd, buf, t, off) : r_write(fd, buf, t);
    logline(seq_all - 1, "KILLTORN", p, at, (long long)t, w);
    die();
  }
  int first_fire = (fail_kind != 0 && !fail_fired);
  int fk = fail_now(idx, 1, 0);
  if (fk && fk != 5 && first_fire && fail_delay_ms > 0) {
    // make the failure visible in the log first, then hold the call (and whatever lock the caller
    // holds) for a while so that other threads queue up behind it
    logline(seq_all - 1, "writeFAIL", p, at, (long long)len, -1);
    pthread_mutex_unlock(&mu);
    usleep((useconds_t)fail_delay_ms * 1000);
    pthread_mutex_lock(&mu);
  }
  ssize_t ret;
  if (fk == 1) {
    errno = EIO;
    ret = -1;
  } else if (fk == 2) {
    errno = ENOSPC;
    ret = -1;
  } else if (fk == 3) {
    // true short write on the first hit (half of the bytes), ENOSPC afterwards
    static int short_done = 0;
    if (!short_done && len > 1) {
      short_done = 1;
      ret = positional ? r_pwrite64(fd, buf, len / 2, off) : r_write(fd, buf, len / 2);
      if (!fail_sticky) {
        // the continuation of this write fails once
        fail_n = idx + 1;
        fail_kind = 2;
      }
    } else {
      errno = ENOSPC;
      ret = -1;
    }
  } else if (fk == 5) {
    // a legal short write: half of the bytes are written and reported, no error follows
    size_t part = len > 1 ? len / 2 : len;
    ret = positional ? r_pwrite64(fd, buf, part, off) : r_write(fd, buf, part);
  } else {
    ret = positional ? r_pwrite64(fd, buf, len, off) : r_write(fd, buf, len);
  }
  int e = errno;
  logline(seq_all - 1, fk == 5 ? "writeSHORT" : (fk ? "writeFAIL" : "write"), p, at, (long long)len, ret);
  pthread_mutex_unlock(&mu);
  errno = e;
  return ret;
}

ssize_t write(int fd, const void *buf, size_t len) {
  init();
  return do_write(fd, buf, len, 0, 0);
}
ssize_t pwrite(int fd, const void *buf, size_t len, off_t off) {
  init();
  return do_write(fd, buf, len, off, 1);
}
ssize_t pwrite64(int fd, const void *buf, size_t len, off64_t off) {
  init();
  return do_write(fd, buf, len, off, 1);
}
ssize_t writev(int fd, const struct iovec *iov, int cnt) {
  init();
  const char *p = (fd >= 0 && fd < MAXFD) ? fdpath[fd] : NULL;
  if (!p) return r_writev(fd, iov, cnt);
  // gather and write as one buffer so that tearing/short writes work the same way
  size_t total = 0;
  for (int i = 0; i < cnt; i++) total += iov[i].iov_len;
  char *b = malloc(total ? total : 1);
  size_t o = 0;
  for (int i = 0; i < cnt; i++) {
    memcpy(b + o, iov[i].iov_base, iov[i].iov_len);
    o += iov[i].iov_len;
  }
  ssize_t r = do_write(fd, b, total, 0, 0);
  int e = errno;
  free(b);
  errno = e;
  return r;
}

// ---------------------------------------------------------------- truncate / sync
static int do_trunc(int fd, long long len, int w64) {
  init();
  const char *p = (fd >= 0 && fd < MAXFD) ? fdpath[fd] : NULL;
  if (!p) return w64 ? r_ftruncate64(fd, len) : r_ftruncate(fd, len);
  pthread_mutex_lock(&mu);
  pre_call("ftruncate", p, 0, len, 0);
  int r = w64 ? r_ftruncate64(fd, len) : r_ftruncate(fd, len);
  int e = errno;
  logline(seq_all - 1, "ftruncate", p, len, 0, r);
  pthread_mutex_unlock(&mu);
  errno = e;
  return r;
}
int ftruncate(int fd, off_t len) { return do_trunc(fd, len, 0); }
int ftruncate64(int fd, off64_t len) { return do_trunc(fd, len, 1); }

static int do_sync(int fd, int data) {
  init();
  const char *p = (fd >= 0 && fd < MAXFD) ? fdpath[fd] : NULL;
  if (!p) return data ? r_fdatasync(fd) : r_fsync(fd);
  pthread_mutex_lock(&mu);
  long idx = pre_call(data ? "fdatasync" : "fsync", p, 0, 0, 0);
  int fk = fail_now(idx, 0, 1);
  int r;
  if (fk == 4) {
    errno = EIO;
    r = -1;
  } else {
    r = data ? r_fdatasync(fd) : r_fsync(fd);
  }
  int e = errno;
  logline(seq_all - 1, fk ? "syncFAIL" : (data ? "fdatasync" : "fsync"), p, 0, 0, r);
  pthread_mutex_unlock(&mu);
  errno = e;
  return r;
}
int fsync(int fd) { return do_sync(fd, 0); }
int fdatasync(int fd) { return do_sync(fd, 1); }

int fallocate(int fd, int mode, off_t off, off_t len) {
  init();
  const char *p = (fd >= 0 && fd < MAXFD) ? fdpath[fd] : NULL;
  if (!p) return r_fallocate(fd, mode, off, len);
  pthread_mutex_lock(&mu);
  pre_call("fallocate", p, 0, off, len);
  int r = r_fallocate(fd, mode, off, len);
  int e = errno;
  logline(seq_all - 1, "fallocate", p, off, len, r);
  pthread_mutex_unlock(&mu);
  errno = e;
  return r;
}
int posix_fallocate(int fd, off_t off, off_t len) {
  init();
  const char *p = (fd >= 0 && fd < MAXFD) ? fdpath[fd] : NULL;
  if (!p) return r_posix_fallocate(fd, off, len);
  pthread_mutex_lock(&mu);
  pre_call("fallocate", p, 0, off, len);
  int r = r_posix_fallocate(fd, off, len);
  logline(seq_all - 1, "fallocate", p, off, len, r);
  pthread_mutex_unlock(&mu);
  return r;
}

// ---------------------------------------------------------------- namespace ops
#define NS1(name, realcall, pathexpr)                 \
  do {                                                \
    init();                                           \
    char full[1200];                                  \
    pathexpr;                                         \
    if (!under_root(full)) return realcall;           \
    pthread_mutex_lock(&mu);                          \
    pre_call(name, full, 0, 0, 0);                    \
    int r = realcall;                                 \
    int e = errno;                                    \
    logline(seq_all - 1, name, full, 0, 0, r);        \
    pthread_mutex_unlock(&mu);                        \
    errno = e;                                        \
    return r;                                         \
  } while (0)

int rename(const char *a, const char *b) { NS1("rename", r_rename(a, b), resolve_at(AT_FDCWD, b, full, sizeof full)); }
int renameat(int da, const char *a, int db, const char *b) { NS1("rename", r_renameat(da, a, db, b), resolve_at(db, b, full, sizeof full)); }
int unlink(const char *a) { NS1("unlink", r_unlink(a), resolve_at(AT_FDCWD, a, full, sizeof full)); }
int unlinkat(int d, const char *a, int fl) { NS1(((fl & AT_REMOVEDIR) ? "rmdir" : "unlink"), r_unlinkat(d, a, fl), resolve_at(d, a, full, sizeof full)); }
int mkdir(const char *a, mode_t m) { NS1("mkdir", r_mkdir(a, m), resolve_at(AT_FDCWD, a, full, sizeof full)); }
int mkdirat(int d, const char *a, mode_t m) { NS1("mkdir", r_mkdirat(d, a, m), resolve_at(d, a, full, sizeof full)); }
int rmdir(const char *a) { NS1("rmdir", r_rmdir(a), resolve_at(AT_FDCWD, a, full, sizeof full)); }
int link(const char *a, const char *b) { NS1("link", r_link(a, b), resolve_at(AT_FDCWD, b, full, sizeof full)); }
