import json,glob,sys
pat=sys.argv[1]
for f in sorted(glob.glob(pat)):
    d=json.load(open(f)); c=d['case']['cfg']
    print(f, 'flavor',c['flavor'], [ (json.dumps(k['strategy']),k['memtable'],k['blob'],k['manual_persist']) for k in c['ks']], 'scale',c['pos_scale'],'lz4',c['journal_lz4'],'dbmp',c['db_manual_persist'],'fm',c['filter_mask'])
    for i,o in enumerate(d['case']['ops']): print('  ',i,json.dumps(o)[:170])
    print('  =>',d['failure']['step'],d['failure']['msg'][:400])
