#!/bin/sh
# builds the verification machinery offline from files on disk
set -e
cd "$(dirname "$0")"
export CARGO_NET_OFFLINE=true
(cd harness && cargo build --release --offline)
if [ -d shim ]; then
  gcc -O2 -shared -fPIC -o shim/fjshim.so shim/fjshim.c -ldl -lpthread
fi
mkdir -p evidence replays
exit 0
