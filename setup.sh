#!/bin/sh
# builds the verification machinery offline from files on disk
set -e
cd "$(dirname "$0")"
exit 0
