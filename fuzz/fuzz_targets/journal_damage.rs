#![no_main]
//! E4: coverage-guided supplement for C15 (damage) and C03 (truncation).
//! bytes -> (operations, compression, mutations) -> real writer (through the public API, no flush)
//! -> mutate the journal file -> real recovery -> oracle: open fails, or the recovered content is
//! a prefix state of the commit history. Known finding C15-KF1 (Start.seqno outside the checksum)
//! is tolerated in-target so that a campaign does not rediscover it forever.

use arbitrary::{Arbitrary, Unstructured};
use fjall::{Database, KeyspaceCreateOptions};
use libfuzzer_sys::fuzz_target;
use std::collections::BTreeMap;
use std::io::{Read, Seek, SeekFrom, Write};
use std::path::{Path, PathBuf};

type Map = BTreeMap<Vec<u8>, Vec<u8>>;
type State = Vec<Map>; // per keyspace (2 keyspaces)

#[derive(Debug)]
enum Op {
    Insert(u8, Vec<u8>, Vec<u8>),
    Remove(u8, Vec<u8>),
    Batch(Vec<(u8, Vec<u8>, Option<Vec<u8>>)>),
    Clear(u8),
}

fn key(u: &mut Unstructured) -> arbitrary::Result<Vec<u8>> {
    let n = u.int_in_range(1..=4)?;
    let mut k = vec![];
    for _ in 0..n {
        k.push(*u.choose(&[b'a', b'b', b'c', 0u8, 0xff])?);
    }
    Ok(k)
}

fn val(u: &mut Unstructured) -> arbitrary::Result<Vec<u8>> {
    let class = u.int_in_range(0..=9)?;
    let len = match class {
        0 => 0,
        1..=6 => u.int_in_range(1..=24)?,
        7 => u.int_in_range(4090..=4100)?,
        8 => u.int_in_range(100..=600)?,
        _ => u.int_in_range(8000..=9000)?,
    };
    let fill = u8::arbitrary(u)?;
    let rnd = bool::arbitrary(u)?;
    let mut v = vec![fill; len];
    if rnd {
        let mut x = u64::from(fill) | 1;
        for b in &mut v {
            x ^= x << 13;
            x ^= x >> 7;
            x ^= x << 17;
            *b = (x >> 16) as u8;
        }
    }
    Ok(v)
}

fn ops(u: &mut Unstructured) -> arbitrary::Result<Vec<Op>> {
    let n = u.int_in_range(1..=8)?;
    let mut v = vec![];
    for _ in 0..n {
        v.push(match u.int_in_range(0..=9)? {
            0..=4 => Op::Insert(u.int_in_range(0..=1)?, key(u)?, val(u)?),
            5 => Op::Remove(u.int_in_range(0..=1)?, key(u)?),
            6..=8 => {
                let m = u.int_in_range(1..=5)?;
                let mut items = vec![];
                for _ in 0..m {
                    let ks = u.int_in_range(0..=1)?;
                    let k = key(u)?;
                    let v = if u.ratio(4, 5)? { Some(val(u)?) } else { None };
                    items.push((ks, k, v));
                }
                Op::Batch(items)
            }
            _ => Op::Clear(u.int_in_range(0..=1)?),
        });
    }
    Ok(v)
}

fn logical_end(p: &Path) -> u64 {
    let mut f = std::fs::File::open(p).unwrap();
    let mut buf = vec![0u8; 256 * 1024];
    let n = f.read(&mut buf).unwrap_or(0);
    buf.truncate(n);
    while buf.last() == Some(&0) {
        buf.pop();
    }
    buf.len() as u64
}

fn dump(dir: &Path, lz4: bool) -> Result<State, String> {
    let db = Database::builder(dir)
        .worker_threads_unchecked(0).cache_size(256 * 1024).max_cached_files(Some(16))
        .journal_compression(if lz4 { fjall::CompressionType::Lz4 } else { fjall::CompressionType::None })
        .open()
        .map_err(|e| format!("{e:?}"))?;
    let mut st = vec![];
    for n in ["a", "b"] {
        let ks = db.keyspace(n, KeyspaceCreateOptions::default).map_err(|e| format!("{e:?}"))?;
        let mut m = Map::new();
        for g in ks.iter() {
            let (k, v) = g.into_inner().map_err(|e| format!("{e:?}"))?;
            m.insert(k.to_vec(), v.to_vec());
        }
        st.push(m);
    }
    Ok(st)
}

fn scratch() -> PathBuf {
    let base = if Path::new("/dev/shm").is_dir() { PathBuf::from("/dev/shm") } else { std::env::temp_dir() };
    base.join(format!("fjv-fuzz-{}", std::process::id()))
}

static TOLERATE_PANICS: std::sync::atomic::AtomicBool = std::sync::atomic::AtomicBool::new(false);
static HOOK: std::sync::Once = std::sync::Once::new();

fuzz_target!(|data: &[u8]| {
    // libfuzzer-sys aborts on every panic; a panic inside fjall while opening a DAMAGED journal is
    // "failed to open" for the oracle, so it is tolerated inside that region only
    HOOK.call_once(|| {
        std::panic::set_hook(Box::new(|info| {
            if !TOLERATE_PANICS.load(std::sync::atomic::Ordering::SeqCst) {
                eprintln!("{info}");
                std::process::abort();
            }
        }));
    });
    let mut u = Unstructured::new(data);
    let Ok(lz4) = bool::arbitrary(&mut u) else { return };
    let Ok(program) = ops(&mut u) else { return };
    let dir = scratch();
    let _ = std::fs::remove_dir_all(&dir);
    let jpath = dir.join("0.jnl");
    // write phase (real writer, nothing flushed: default 64 MiB memtables)
    let mut states: Vec<State> = vec![vec![Map::new(), Map::new()]];
    let mut ranges: Vec<(u64, u64)> = vec![];
    {
        let db = Database::builder(&dir)
            .worker_threads_unchecked(0).cache_size(256 * 1024).max_cached_files(Some(16))
            .journal_compression(if lz4 { fjall::CompressionType::Lz4 } else { fjall::CompressionType::None })
            .open()
            .unwrap();
        let kss = [db.keyspace("a", KeyspaceCreateOptions::default).unwrap(), db.keyspace("b", KeyspaceCreateOptions::default).unwrap()];
        let mut end = logical_end(&jpath);
        for op in &program {
            let mut s = states.last().unwrap().clone();
            match op {
                Op::Insert(ks, k, v) => {
                    kss[*ks as usize].insert(k.clone(), v.clone()).unwrap();
                    s[*ks as usize].insert(k.clone(), v.clone());
                }
                Op::Remove(ks, k) => {
                    kss[*ks as usize].remove(k.clone()).unwrap();
                    s[*ks as usize].remove(k);
                }
                Op::Batch(items) => {
                    let mut b = db.batch();
                    for (ks, k, v) in items {
                        match v {
                            Some(v) => {
                                b.insert(&kss[*ks as usize], k.clone(), v.clone());
                                s[*ks as usize].insert(k.clone(), v.clone());
                            }
                            None => {
                                b.remove(&kss[*ks as usize], k.clone());
                                s[*ks as usize].remove(k);
                            }
                        }
                    }
                    b.commit().unwrap();
                }
                Op::Clear(ks) => {
                    kss[*ks as usize].clear().unwrap();
                    s[*ks as usize].clear();
                }
            }
            let e2 = logical_end(&jpath);
            ranges.push((end, e2));
            end = e2;
            states.push(s);
        }
    }
    let data_end = ranges.last().map_or(0, |r| r.1);
    // round trip under the other compression setting
    match dump(&dir, !lz4) {
        Ok(got) => assert!(&got == states.last().unwrap(), "C15 round trip altered data (written lz4={lz4})"),
        Err(e) => panic!("C15 round trip: open failed: {e}"),
    }
    // the clean reopen rewrote nothing relevant; now mutate
    let Ok(n_mut) = u.int_in_range(1..=3) else { return };
    let mut touched_start_seqno = false;
    let mut pure_truncation: Option<u64> = None;
    {
        let mut f = std::fs::OpenOptions::new().read(true).write(true).open(&jpath).unwrap();
        for i in 0..n_mut {
            let Ok(kind) = u.int_in_range(0..=2) else { break };
            let Ok(off) = u.int_in_range(0..=data_end.saturating_add(16)) else { break };
            match kind {
                0 => {
                    // truncate: zero everything from off
                    let len = (data_end + 64).saturating_sub(off) as usize;
                    f.seek(SeekFrom::Start(off)).unwrap();
                    f.write_all(&vec![0u8; len]).unwrap();
                    if i == 0 && n_mut == 1 {
                        pure_truncation = Some(off);
                    }
                }
                1 => {
                    f.set_len(off).unwrap();
                    if i == 0 && n_mut == 1 {
                        pure_truncation = Some(off);
                    }
                }
                _ => {
                    let Ok(mask) = u.int_in_range(1..=255u8) else { break };
                    if ranges.iter().any(|(s, e)| e > s && off >= s + 5 && off < s + 13) {
                        touched_start_seqno = true;
                    }
                    let mut b = [0u8; 1];
                    f.seek(SeekFrom::Start(off)).unwrap();
                    if f.read(&mut b).unwrap_or(0) == 1 {
                        b[0] ^= mask;
                        f.seek(SeekFrom::Start(off)).unwrap();
                        f.write_all(&b).unwrap();
                    }
                }
            }
        }
    }
    TOLERATE_PANICS.store(true, std::sync::atomic::Ordering::SeqCst);
    let res = std::panic::catch_unwind(|| dump(&dir, lz4));
    TOLERATE_PANICS.store(false, std::sync::atomic::Ordering::SeqCst);
    match res {
        Err(_) | Ok(Err(_)) => {
            // failed to open: allowed for damage; NOT allowed for a pure truncation (C03: recovery must succeed)
            if let Some(off) = pure_truncation {
                panic!("C03: journal ending at byte {off} made recovery fail");
            }
        }
        Ok(Ok(got)) => {
            let p = states.iter().rposition(|s| s == &got);
            if p.is_none() && !touched_start_seqno {
                panic!("C15: damaged journal was read back as data that is no prefix of the commit history");
            }
            if let (Some(off), Some(_)) = (pure_truncation, p) {
                // every operation completed before the cut is present, nothing beyond the cut
                let complete = ranges.iter().take_while(|(_, e)| *e <= off).count();
                let upper = ranges.iter().take_while(|(s, _)| *s < off).count();
                assert!(
                    (complete..=upper.max(complete)).any(|q| states[q] == got),
                    "C03: journal cut at {off}: recovered state is not S_p for {complete} <= p <= {upper}"
                );
            }
        }
    }
    let _ = std::fs::remove_dir_all(&dir);
});
