import json,glob,sys
for f in sorted(glob.glob(sys.argv[1])):
    d=json.load(open(f)); c=d['case']['cfg']
    print(f, d['inject'], 'flavor',c['flavor'],[ (json.dumps(k['strategy']),k['memtable'],k['blob'],k['manual_persist']) for k in c['ks']], 'scale',c['pos_scale'],'lz4',c['journal_lz4'])
    for i,o in enumerate(d['case']['ops']): print('  ',i,json.dumps(o)[:170])
    print('  =>',d['failure']['msg'][:500])
